#!/usr/bin/env python3
"""C06 — calendar and epoch arithmetic is proleptic Gregorian and bijective.

Kernel lemmas on the real IR of LocalDate / LocalTime / LocalDateTime /
local_date_mutation, inputs fully symbolic; the calendar specification is the
table-driven spec of /verif/spec/calendar.py rendered as z3 terms."""
import sys
import os
sys.path.insert(0, os.path.dirname(os.path.abspath(__file__)))
import common  # noqa: E402
import z3  # noqa: E402
from spec import calendar as cal  # noqa: E402

INT32_MIN = -(1 << 31)
INT32_MAX = (1 << 31) - 1


def _bv(v, bits):
    return z3.BitVecVal(v, bits) if isinstance(v, int) else v


def post_date_to_days(item, obs, leaf):
    yt, m, d = [t for (_, t, _) in leaf.nondet][:3]
    out = []
    days = _bv(obs['days'], 64)
    out.append(('toEpochDays==spec_days', z3.Extract(31, 0, days) != cal.z3_days(yt, m, d)))
    out.append(('dayOfWeek==spec_weekday',
                z3.Extract(7, 0, _bv(obs['dow'], 64)) != z3.Extract(7, 0, cal.z3_weekday(cal.z3_days(yt, m, d)))))
    out.append(('daysInMonth==spec', z3.Extract(7, 0, _bv(obs['dim'], 64)) != cal.z3_dim(yt, m)))
    return out


def post_days_to_date(item, obs, leaf):
    days = leaf.nondet[0][1]
    yt = z3.Extract(7, 0, _bv(obs['yearTiny'], 64))
    m = z3.Extract(7, 0, _bv(obs['month'], 64))
    d = z3.Extract(7, 0, _bv(obs['day'], 64))
    return [('forEpochDays-fields-valid', z3.Not(cal.z3_valid_date(yt, m, d))),
            ('spec_days(forEpochDays(n))==n', cal.z3_days(yt, m, d) != days)]


LEAP_RES = [r for r in range(400) if cal.is_leap(r + 2000)]


def post_leap_dim(item, obs, leaf):
    y, m = leaf.nondet[0][1], leaf.nondet[1][1]
    # spec: leap <=> (y mod 400) in the residue table of the Gregorian rule (y as signed 16 bit)
    y32 = z3.SignExt(16, y)
    res = z3.URem(y32 + 400 * 100, z3.BitVecVal(400, 32))
    leap = z3.Or([res == r for r in LEAP_RES])
    got_leap = _bv(obs['leap'], 64)
    dim = z3.Extract(7, 0, _bv(obs['dim'], 64))
    base = cal._table(m, [(k, cal.MONTH_LEN[k - 1]) for k in range(1, 13)], 0, 8)
    want = z3.If(z3.And(m == 2, leap), z3.BitVecVal(29, 8), base)
    return [('isLeapYear==gregorian', (z3.Extract(0, 0, got_leap) == 1) != leap),
            ('daysInMonth==gregorian', dim != want)]


def post_seconds(item, obs, leaf):
    t = leaf.nondet[0][1]
    f = dict((k, z3.Extract(7, 0, _bv(obs[k], 64))) for k in ('yearTiny', 'month', 'day', 'hour', 'minute', 'second'))
    yt, m, d = f['yearTiny'], f['month'], f['day']
    secs = z3.ZeroExt(56, f['hour']) * 3600 + z3.ZeroExt(56, f['minute']) * 60 + z3.ZeroExt(56, f['second'])
    total = z3.SignExt(32, cal.z3_days(yt, m, d)) * 86400 + secs
    return [('fields-are-a-valid-calendar-date-time',
             z3.Not(z3.And(cal.z3_valid_date(yt, m, d), z3.ULT(f['hour'], 24), z3.ULT(f['minute'], 60),
                           z3.ULT(f['second'], 60)))),
            ('spec_days*86400+time==t', total != z3.SignExt(32, t))]


def post_ldt_to_seconds(item, obs, leaf):
    yt, m, d, h, mi, s = [t for (_, t, _) in leaf.nondet][:6]
    v64 = (z3.SignExt(32, cal.z3_days(yt, m, d)) * 86400 + z3.ZeroExt(56, h) * 3600 + z3.ZeroExt(56, mi) * 60
           + z3.ZeroExt(56, s))
    rep = z3.And(v64 > -(1 << 31), v64 < (1 << 31))
    got = z3.Extract(31, 0, _bv(obs['secs'], 64))
    return [('toEpochSeconds==spec_days*86400+time (representable)', z3.And(rep, z3.SignExt(32, got) != v64))]


def _s(v, bits):
    return v - (1 << bits) if v >> (bits - 1) else v


def spec_concrete(r, tag, nd, obs):
    e = r['entry']
    if e == 'c06_date_to_days':
        yt, m, d = _s(nd['yearTiny'], 8), nd['month'], nd['day']
        want = cal.days(2000 + yt, m, d)
        if tag.startswith('toEpochDays'):
            return obs['days'] != want
        if tag.startswith('dayOfWeek'):
            return obs['dow'] != cal.weekday(want)
        return obs['dim'] != cal.dim(2000 + yt, m)
    if e == 'c06_days_to_date':
        n = _s(nd['days'], 32)
        y, m, d = cal.civil(n)
        return (obs['yearTiny'] + 2000, obs['month'], obs['day']) != (y, m, d)
    if e == 'c06_leap_dim':
        y = _s(nd['year'], 16)
        leap = (y % 4 == 0 and y % 100 != 0) or y % 400 == 0
        if tag.startswith('isLeap'):
            return bool(obs['leap']) != leap
        return obs['dim'] != (29 if nd['month'] == 2 and leap else cal.MONTH_LEN[nd['month'] - 1])
    if e == 'c06_ldt_to_seconds':
        yt = _s(nd['yearTiny'], 8)
        v = cal.days(2000 + yt, nd['month'], nd['day']) * 86400 + nd['hour'] * 3600 + nd['minute'] * 60 + nd['second']
        return -(1 << 31) < v < (1 << 31) and _s(obs['secs'] & 0xffffffff, 32) != v
    if e == 'c06_seconds_roundtrip':
        t = _s(nd['t'], 32)
        y, m, d = cal.civil(t // 86400)
        s = t % 86400
        return (obs['yearTiny'] + 2000, obs['month'], obs['day'], obs['hour'], obs['minute'], obs['second']) != (
            y, m, d, s // 3600, s // 60 % 60, s % 60)
    return False


def main():
    a = common.parse_args('C06')
    ndays = cal.validate()
    kc = common.KernelCheck(a, ['h_c06.cpp'])
    kc.spec_concrete = spec_concrete
    kc.build()
    thorough = a.tier == 'thorough'
    to = 900 if thorough else 400
    items = []
    for mo in range(1, 13):
        items.append(dict(name='date_to_days/month=%02d' % mo, entry='c06_date_to_days', args=[-127, 127, mo, 0],
                          timeout=to, feas_ms=500, post=post_date_to_days, diff=thorough))
    lo, hi = cal.days(1873, 1, 1), cal.days(2127, 12, 31) + 1
    step = 6000 if thorough else 12000
    for x in range(lo, hi, step):
        items.append(dict(name='days_to_date/%d' % x, entry='c06_days_to_date', args=[x, min(hi, x + step), 0, 0],
                          timeout=to, feas_ms=500, post=post_days_to_date, diff=thorough))
    items.append(dict(name='leap_dim/int16', entry='c06_leap_dim', args=[0, 0, 0, 0], timeout=to,
                      post=post_leap_dim))
    for mo in range(1, 13):
        items.append(dict(name='inc_dec/month=%02d' % mo, entry='c06_inc_dec', args=[-127, 127, mo, 0],
                          timeout=to, feas_ms=500))
    # few chunks: the integer back end (cvc5 --solve-bv-as-int) is insensitive to the range, the
    # bit-blasting back ends profit from a fixed sign
    cuts = [INT32_MIN, -(1 << 30), 0, 1 << 30, INT32_MAX + 1]
    if thorough:
        cuts = [INT32_MIN + k * (1 << 29) for k in range(9)]
    nch = len(cuts) - 1
    for k in range(nch):
        items.append(dict(name='seconds_roundtrip/%02d' % k, entry='c06_seconds_roundtrip',
                          args=[cuts[k], cuts[k + 1] - 1, 0, 0], timeout=to, feas_ms=2000, post=post_seconds, contracts=True,
                          diff=thorough))
    ulo = INT32_MIN + 946684800 + 1
    ucuts = [ulo, 0, 1 << 30, INT32_MAX + 1]
    for k in range(3):
        items.append(dict(name='unix_roundtrip/%d' % k, entry='c06_unix_roundtrip',
                          args=[ucuts[k], ucuts[k + 1] - 1, 0, 0], timeout=to, feas_ms=2000, contracts=True))
    for mo in range(1, 13):
        items.append(dict(name='ldt_to_seconds/month=%02d' % mo, entry='c06_ldt_to_seconds', args=[mo, 0, 0, 0],
                          timeout=to, feas_ms=1000, post=post_ldt_to_seconds, contracts=True))
    items.append(dict(name='local_time/all-bytes', entry='c06_local_time', args=[0, 0, 0, 0], timeout=to))
    items.append(dict(name='time_for_seconds', entry='c06_time_for_seconds', args=[0, 0, 0, 0], timeout=to))
    items.append(dict(name='date_iserror/all-bytes', entry='c06_date_iserror', args=[0, 0, 0, 0], timeout=to))
    res = kc.run_items(items, jobs=8 if not thorough else 6)
    kc.judge_kernel(res)
    cov = kc.kernel_coverage(
        rule='one obligation = one (path condition AND negated assertion/spec/UB-trap) query over fully symbolic '
             'inputs of one harness entry and range chunk; distinct = distinct (work item, obligation) pairs; '
             'non-trivial = contains symbolic inputs (constant-true assertions are not counted)',
        bounds={'dates': 'yearTiny -127..127 (1873..2127), all months/days valid for the month; month is a driver '
                         'case split (12 cases), year and day symbolic',
                'epoch_days': '[%d, %d) in %d chunks' % (lo, hi, len(range(lo, hi, step))),
                'epoch_seconds': 'all int32 except the sentinel, %d chunks' % nch,
                'unix_seconds': '[%d, %d] (values whose epoch seconds are representable)' % (ulo, INT32_MAX),
                'local_time': 'all 2^24 (h,m,s) byte triples', 'loop_unwinding': 64,
                'spec_days_validated_against_cpython': ndays},
        outside=['unix seconds below %d (epoch seconds not representable in int32; documented)' % ulo,
                 'AVR 16-bit int promotion'])
    kc.finish(cov, ['calendar spec = tables built from the Gregorian rule, validated against CPython datetime '
                    'for every day 1872..2128 on this run',
                    'LocalDate::isError() contract is the documented weak check (month 1..12, day 1..31, year != -128)'])


if __name__ == '__main__':
    main()
