// Native replay runtime: runs one harness entry with concrete parameters and a
// list of concrete values for the nondet calls (in call order).
// usage: replay <entry> <a0> <a1> <a2> <a3> [nondet values...]
// Output: one line per observation / assertion failure.
#include <stdio.h>
#include <stdlib.h>
#include <string.h>
#include <stdint.h>
#include <dlfcn.h>
#include "verif.h"
#include <Arduino.h>
VerifNullSerial Serial;
static long long* g_vals; static int g_n, g_i;
static unsigned long long next(const char* name) {
  if (g_i >= g_n) { printf("NONDET-EXHAUSTED %s\n", name); fflush(stdout); exit(4); }
  return (unsigned long long) g_vals[g_i++];
}
extern "C" {
int8_t   __verif_nondet_i8(const char* n) { return (int8_t) next(n); }
uint8_t  __verif_nondet_u8(const char* n) { return (uint8_t) next(n); }
int16_t  __verif_nondet_i16(const char* n) { return (int16_t) next(n); }
uint16_t __verif_nondet_u16(const char* n) { return (uint16_t) next(n); }
int32_t  __verif_nondet_i32(const char* n) { return (int32_t) next(n); }
uint32_t __verif_nondet_u32(const char* n) { return (uint32_t) next(n); }
int64_t  __verif_nondet_i64(const char* n) { return (int64_t) next(n); }
uint64_t __verif_nondet_u64(const char* n) { return (uint64_t) next(n); }
void __verif_assume(bool c) { if (!c) { printf("ASSUME-FALSE\n"); fflush(stdout); exit(3); } }
void __verif_assert(bool c, const char* id) { if (!c) { printf("ASSERT-FAILED %s\n", id); fflush(stdout); } }
void __verif_observe(const char* tag, int64_t v) { printf("OBS %s %lld\n", tag, (long long) v); fflush(stdout); }
void __verif_observe_str(const char* tag, const char* s) { printf("OBSS %s %s\n", tag, s); fflush(stdout); }
void __verif_observe_bytes(const char* tag, const void* p, size_t n) {
  printf("OBSB %s", tag); for (size_t i = 0; i < n; i++) printf(" %u", ((const uint8_t*) p)[i]); printf("\n"); fflush(stdout);
}
int64_t __verif_concretize(int64_t v) { return v; }
void __verif_reach(const char* tag) { printf("REACH %s\n", tag); fflush(stdout); }
long __verif_param(int i) {
  const char* p = getenv("VERIF_PARAMS");
  if (!p) { printf("NO-PARAMS\n"); exit(4); }
  for (int k = 0; k < i; k++) { p = strchr(p, ','); if (!p) { printf("PARAM-MISSING %d\n", i); exit(4); } p++; }
  return strtol(p, 0, 0);
}
}
int main(int argc, char** argv) {
  if (argc < 6) { fprintf(stderr, "usage\n"); return 2; }
  typedef void (*entry_t)(long, long, long, long);
  entry_t e = (entry_t) dlsym(RTLD_DEFAULT, argv[1]);
  if (!e) { fprintf(stderr, "no entry %s\n", argv[1]); return 2; }
  g_n = argc - 6; g_vals = (long long*) malloc(sizeof(long long) * (g_n + 1));
  for (int i = 0; i < g_n; i++) g_vals[i] = (long long) strtoull(argv[6 + i], 0, 0);
  e(strtol(argv[2], 0, 0), strtol(argv[3], 0, 0), strtol(argv[4], 0, 0), strtol(argv[5], 0, 0));
  printf("DONE\n");
  return 0;
}
