// C library functions the library calls, as plain loops, so that the engine
// executes them like any other IR (compiled with -fno-builtin; IR build only).
#include <stddef.h>
extern "C" {
size_t strlen(const char* s) { size_t n = 0; while (s[n]) n++; return n; }
int strcmp(const char* a, const char* b) {
  while (true) {
    unsigned char ca = (unsigned char) *a, cb = (unsigned char) *b;
    if (ca != cb) return (int) ca - (int) cb;
    if (ca == 0) return 0;
    a++; b++;
  }
}
int strncmp(const char* a, const char* b, size_t n) {
  while (n--) {
    unsigned char ca = (unsigned char) *a, cb = (unsigned char) *b;
    if (ca != cb) return (int) ca - (int) cb;
    if (ca == 0) return 0;
    a++; b++;
  }
  return 0;
}
char* strchr(const char* s, int c) {
  while (true) {
    if (*s == (char) c) return (char*) s;
    if (*s == 0) return 0;
    s++;
  }
}
char* strrchr(const char* s, int c) {
  const char* r = 0;
  while (true) {
    if (*s == (char) c) r = s;
    if (*s == 0) return (char*) r;
    s++;
  }
}
char* strncpy(char* d, const char* s, size_t n) {
  size_t i = 0;
  for (; i < n && s[i]; i++) d[i] = s[i];
  for (; i < n; i++) d[i] = 0;
  return d;
}
char* strcpy(char* d, const char* s) { size_t i = 0; for (; s[i]; i++) d[i] = s[i]; d[i] = 0; return d; }
int bcmp(const void* a, const void* b, size_t n) {
  const unsigned char* x = (const unsigned char*) a; const unsigned char* y = (const unsigned char*) b;
  for (size_t i = 0; i < n; i++) if (x[i] != y[i]) return 1;
  return 0;
}
int memcmp(const void* a, const void* b, size_t n) {
  const unsigned char* x = (const unsigned char*) a; const unsigned char* y = (const unsigned char*) b;
  for (size_t i = 0; i < n; i++) if (x[i] != y[i]) return (int) x[i] - (int) y[i];
  return 0;
}
}
