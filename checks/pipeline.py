"""C03 / C20 — the TZ compiler pipeline (tzcompiler.py: extractor -> transformer -> generators) run on concrete
programs (TZ sources); the instant stays symbolic: every emitted zone of the freshly generated C++ tables is
decided against zic on the same source text with the C01/C02 machinery."""
import os
import re
import sys
import json
import shutil
import subprocess
sys.path.insert(0, os.path.dirname(os.path.abspath(__file__)))
import common  # noqa: E402
import zones  # noqa: E402
from llsym import build, loader, engine  # noqa: E402
from spec import zicoracle  # noqa: E402
from spec import calendar as cal  # noqa: E402

ZONE_FILES = ['africa', 'antarctica', 'asia', 'australasia', 'backward', 'etcetera', 'europe', 'northamerica', 'southamerica']


def reconstructed_source():
    """The 2020d subset recorded in the shipped zonedbx tables (387 zones), as TZ source text."""
    base = os.path.join(build.REPO, 'src', 'ace_time', 'zonedbx')
    pol = zicoracle.parse_policies(os.path.join(base, 'zone_policies.cpp'))
    zs, _ = zicoracle.parse_zones(os.path.join(base, 'zone_infos.cpp'))
    tmp = os.path.join(build.VERIF, '.work', 'recon-%d.txt' % os.getpid())
    zicoracle.write_source(pol, zs, tmp)
    txt = open(tmp).read()
    os.unlink(tmp)
    return txt


def synthetic_source():
    return open(os.path.join(build.VERIF, 'spec', 'synthetic_tz.txt')).read()


def write_input_dir(text, d):
    os.makedirs(d, exist_ok=True)
    for f in ZONE_FILES:
        with open(os.path.join(d, f), 'w') as fh:
            fh.write(text if f == 'africa' else '')


def run_compiler(indir, outdir, scope, language, hashseed=None, actions='zonedb,zonelist,tzdb'):
    os.makedirs(outdir, exist_ok=True)
    env = dict(os.environ, PYTHONPATH=os.path.join(build.REPO, 'tools'))
    if hashseed is not None:
        env['PYTHONHASHSEED'] = str(hashseed)
    cmd = [sys.executable, os.path.join(build.REPO, 'tools', 'tzcompiler.py'), '--input_dir', indir, '--scope', scope,
           '--start_year', '2000', '--until_year', '2050', '--action', actions, '--language', language,
           '--tz_version', 'verif', '--output_dir', outdir]
    p = subprocess.run(cmd, stdout=subprocess.PIPE, stderr=subprocess.STDOUT, text=True, env=env, cwd=outdir)
    return p.returncode, p.stdout


def source_names(text):
    zs, ls = [], []
    for ln in text.splitlines():
        f = ln.split('#')[0].split()
        if len(f) >= 2 and f[0] == 'Zone':
            zs.append(f[1])
        if len(f) >= 3 and f[0] == 'Link':
            ls.append(f[2])
    return zs, ls


def strip_comments(path):
    out = []
    for ln in open(path):
        s = re.sub(r'//.*$', '', ln).strip()
        if s:
            out.append(s)
    return out


def shadow_tree(wd, tag, scope, gen_dir):
    """Copy of /repo/src with the generated tables in place of the shipped database of that scope."""
    dst = os.path.join(wd, 'src_' + tag)
    shutil.copytree(os.path.join(build.REPO, 'src'), dst)
    db = 'zonedbx' if scope == 'extended' else 'zonedb'
    for f in ('zone_infos.h', 'zone_infos.cpp', 'zone_policies.h', 'zone_policies.cpp', 'zone_registry.h', 'zone_registry.cpp'):
        shutil.copy(os.path.join(gen_dir, f), os.path.join(dst, 'ace_time', db, f))
    return dst


def oracle_for_text(text, wd, tag):
    src = os.path.join(wd, 'prog_%s.txt' % tag)
    with open(src, 'w') as f:
        f.write(text)
    zi = os.path.join(wd, 'zi_prog_%s' % tag)
    rc, msg = zicoracle.compile_source(src, zi)
    if rc != 0:
        raise RuntimeError('zic rejects the program: ' + msg)
    return zi, msg.strip()


KNOWN_DELTACODE_KEY = 'extended:generated zone_infos.cpp: deltaCode initialiser does not fit int8_t (STDOFF minute remainder >= 8)'


def check_program_scope(kc, name, text, scope, years, run_engine=True, zone_limit=None):
    """Compile one program for one scope (arduino), account for every name, and decide the emitted zones against zic."""
    rep = {'program': name, 'scope': scope, 'emitted': 0, 'engine_zones': 0, 'queries': 0, 'unsat': 0, 'leaves': 0, 'steps': 0,
           'notable': 0, 'removed': 0, 'identical_to_shipped': None, 'samples': []}
    tag = '%s_%s' % (name, scope)
    indir, outdir = os.path.join(kc.wd, 'in_' + tag), os.path.join(kc.wd, 'out_' + tag)
    write_input_dir(text, indir)
    rc, log = run_compiler(indir, outdir, scope, 'arduino')
    if rc != 0:
        kc._record('compiler-fails:%s:%s' % (name, scope), 'tzcompiler fails on program %s (%s): %s' % (name, scope, log[-400:]), True, {})
        return rep
    tz = json.load(open(os.path.join(outdir, 'tzdb.json')))
    zs, ls = source_names(text)
    emitted = set(tz['zones_map'].keys())
    elinks = set(tz['links_map'].keys())
    rz, rl = set(tz['removed_zones'].keys()), set(tz['removed_links'].keys())
    rep['emitted'], rep['removed'], rep['notable'] = len(emitted), len(rz), len(tz['notable_zones'])
    # accounting: every Zone / Link of the source is in exactly one of {emitted, removed}
    for z in zs:
        n = (z in emitted) + (z in rz)
        if n != 1:
            kc._record('accounting:%s:%s:%s' % (name, scope, z), 'program %s (%s): zone %s is %s' % (
                name, scope, z, 'neither emitted nor reported as removed' if n == 0 else 'both emitted and reported removed'), True, {})
    for l in ls:
        n = (l in elinks) + (l in rl)
        if n != 1:
            kc._record('accounting-link:%s:%s:%s' % (name, scope, l), 'program %s (%s): link %s is %s' % (
                name, scope, l, 'neither emitted nor reported as removed' if n == 0 else 'both emitted and removed'), True, {})
    for z in emitted | elinks:
        if z not in zs and z not in ls:
            kc._record('accounting-extra:%s:%s:%s' % (name, scope, z), 'program %s (%s): emitted name %s is not in the source' % (name, scope, z), True, {})
    # zones.txt == emitted set
    listed = [ln.strip() for ln in open(os.path.join(outdir, 'zones.txt')) if ln.strip() and not ln.startswith('#')]
    if set(listed) != emitted | (elinks if any(l in listed for l in elinks) else set()):
        kc._record('zonelist:%s:%s' % (name, scope), 'program %s (%s): zones.txt differs from the emitted zones' % (name, scope), True,
                   {'listed': listed[:10]})
    db = 'zonedbx' if scope == 'extended' else 'zonedb'
    if name == 'reconstructed' and scope == 'extended':
        same = True
        for f in ('zone_policies.cpp', 'zone_registry.cpp', 'zone_infos.cpp'):
            a = strip_comments(os.path.join(outdir, f))
            b = [x for x in strip_comments(os.path.join(build.REPO, 'src', 'ace_time', db, f))
                 if not re.match(r'^const \w+::ZoneInfo& kZone', x)]
            same = same and a == b
        rep['identical_to_shipped'] = same
        if same and not run_engine:
            return rep
    if not run_engine:
        return rep
    # semantic check of the emitted zones with the generated tables
    truncated = set(z for z, notes in tz['notable_zones'].items() if any('truncated' in n for n in notes))
    # a truncation note on a policy (AT / SAVE truncated to the granularity) concerns every zone that uses the policy
    tpol = set(p for p, notes in tz['notable_policies'].items() if any('truncated' in n for n in notes))
    for z, eras in tz['zones_map'].items():
        if any(e.get('rules') in tpol for e in eras):
            truncated.add(z)
    shadow = shadow_tree(kc.wd, tag, scope, outdir)
    wd2 = os.path.join(kc.wd, 'ir_' + tag)
    os.makedirs(wd2)
    try:
        bc = build.build_ir(kc.harnesses, wd2, src_root=shadow)
    except RuntimeError as e:
        msg = str(e)
        shutil.rmtree(shadow, ignore_errors=True)
        shutil.rmtree(wd2, ignore_errors=True)
        if scope == 'extended' and 'cannot be narrowed' in msg and '/*deltaCode*/' in msg:
            # the C12 finding seen end to end: key names the failing construct, not the program
            kc._record(KNOWN_DELTACODE_KEY, 'program %s (extended): the generated zone_infos.cpp does not compile: %s' % (
                name, msg[msg.find('error:'):][:200]), True, {'program': name, 'scope': scope})
        else:
            kc._record('generated-tables-do-not-compile:%s:%s' % (name, scope), 'program %s (%s): the generated tables do not compile '
                       'with the library: %s' % (name, scope, msg[msg.find('error:'):][:300]), True, {'program': name, 'scope': scope})
        rep['tables_do_not_compile'] = True
        return rep
    shutil.rmtree(shadow, ignore_errors=True)
    zi, zmsg = oracle_for_text(text, kc.wd, tag)
    mod = loader.Module(bc)
    eng = engine.Engine(mod)
    sizes = dict(eng.run('z_sizes', [0, 0, 0, 0])[0].obs)
    sc = 'ext' if scope == 'extended' else 'bas'
    n = sizes['ext' if sc == 'ext' else 'bas']
    names = []
    for i in range(n):
        e2 = engine.Engine(mod)
        names.append(e2.run('z_ext_name' if sc == 'ext' else 'z_bas_name', [i, 0, 0, 0])[0].obs[0][1].decode())
    if set(names) != emitted:
        kc._record('registry:%s:%s' % (name, scope), 'program %s (%s): compiled registry %s != emitted zones %s' % (
            name, scope, sorted(set(names) ^ emitted)[:5], ''), True, {})
    if names != sorted(names, key=lambda s: s.encode()):
        kc._record('registry-order:%s:%s' % (name, scope), 'program %s (%s): generated registry is not in ascending name order: %s' % (
            name, scope, names[:6]), True, {})
    zones.ORACLES[sc] = dict((nm, zicoracle.Oracle(zicoracle.step_function(os.path.join(zi, nm)))) for nm in names)
    sel = [i for i, nm in enumerate(names) if nm not in truncated]
    if zone_limit is not None and len(sel) > zone_limit:
        import random
        # zones whose AT / UNTIL / STDOFF values are off the 15-minute grid exercise the packed minute fields: always keep
        # them (up to half of the sample), draw the rest with the seed
        offgrid_pol = set(p for p, rules in tz['rules_map'].items() if any(r['atSecondsTruncated'] % 900 for r in rules))
        first = [i for i in sel if any(e['untilSecondsTruncated'] % 900 or e['offsetSecondsTruncated'] % 900 or e.get('rules') in offgrid_pol
                                       for e in tz['zones_map'][names[i]])][:zone_limit // 2]
        rest = [i for i in sel if i not in first]
        sel = sorted(first + random.Random(kc.a.seed).sample(rest, zone_limit - len(first)))
        rep['always_sampled_offgrid'] = [names[i] for i in first]
    items = [dict(name='%s/%s/%s' % (name, sc, names[i]), scope=sc, index=i, zone=names[i], years=years) for i in sel]
    old_bc = kc.bc
    kc.bc = bc
    lem = kc.run_items([dict(name='year_lemma/%d' % y, year=y) for y in years], jobs=16, fn=zones.run_year_lemma)
    zones.judge_lemmas(kc, lem)
    res = kc.run_items(items, jobs=16, fn=zones.run_zone_item)
    # replays need the native build of *this* tree: confirm against the oracle by engine-concrete runs instead
    for r in res:
        r['program'] = name
    judge_generated(kc, res, sc, mod, name)
    kc.bc = old_bc
    shutil.rmtree(wd2, ignore_errors=True)
    rep['engine_zones'] = len(res)
    rep['queries'] = sum(r['queries'] for r in res)
    rep['unsat'] = sum(r['unsat'] for r in res)
    rep['leaves'] = sum(r['leaves'] for r in res)
    rep['steps'] = sum(r['steps'] for r in res)
    rep['skipped_truncated'] = sorted(truncated)
    rep['samples'] = [s for r in res[:2] for s in r['samples'][:1]]
    rep['functions'] = sorted(set(f for r in res for f in r.get('functions', [])))
    return rep


def judge_generated(kc, res, sc, mod, prog):
    """Counterexamples on generated tables are replayed by a concrete run of the engine on the same IR (the native
    replay binaries are built from /repo/src, not from the generated tree)."""
    for r in res:
        if r['error']:
            kc.inconclusive.append('%s: %s' % (r['name'], r['error']))
            continue
        if r['unknown']:
            kc.inconclusive.append('%s: %d solver queries unknown' % (r['name'], r['unknown']))
        for d in r['defects']:
            kc._record('generated:%s:%s:%s' % (prog, d['kind'], r['zone']), 'program %s zone %s: %s %s' % (prog, r['zone'], d['kind'], d['msg']),
                       True, {'defect': d})
        for s in r['sat']:
            if s['kind'] != 'oracle':
                kc.inconclusive.append('%s: %s %s' % (r['name'], s['kind'], s.get('tag') or s.get('result')))
                continue
            t = s['t']
            eng = engine.Engine(mod, loop_limit=300)
            eng.nondet_values = [t & 0xffffffff]
            lv = eng.run(zones.ENTRY[sc], [r['index'], t, t + 1, 0])
            o = dict(lv[0].obs) if lv and lv[0].status == 'ok' else {}
            exp = zones.ORACLES[sc][r['zone']].at(t)
            off = o.get('off')
            off = (off & 0xffff) - 0x10000 if off is not None and off & 0x8000 else (off & 0xffff if off is not None else None)
            delta = o.get('delta')
            got = (off, delta, o.get('abbrev', b'').decode())
            differs = off is None or off * 60 != exp[0] or ((delta or 0) != 0) != bool(exp[1]) or got[2] != exp[2]
            kc._record('generated-differs:%s:%s:%s:%d' % (prog, sc, r['zone'], s['year']),
                       'program %s, %s zone %s at epoch second %d: generated tables give %s, zic gives %s' % (prog, sc, r['zone'], t, got, exp),
                       differs, {'zone': r['zone'], 't': t, 'acetime': got, 'zic': exp})



def mutate_source(text, rnd):
    """A variant of a TZ source that stays inside the documented feature set: one field of one Rule/Zone line is
    replaced by another admissible value (AT/UNTIL time and suffix, ON form, SAVE, STDOFF minutes, FROM/TO years)."""
    lines = text.splitlines()
    idx = [i for i, ln in enumerate(lines) if ln.startswith('Rule') or ln.startswith('Zone')]
    for _ in range(50):
        i = rnd.choice(idx)
        f = lines[i].split('\t')
        if f[0] == 'Rule' and len(f) >= 10:
            k = rnd.choice(['at', 'on', 'save', 'from'])
            if k == 'at':
                f[7] = rnd.choice(['0:00', '1:00', '2:00', '3:00', '2:30', '23:00', '24:00', '1:45']) + rnd.choice(['', 's', 'u'])
            elif k == 'on':
                f[6] = rnd.choice(['lastSun', 'lastSat', 'Sun>=1', 'Sun>=8', 'Fri>=15', 'Sat>=23', 'Sun<=25', 'Mon<=14', '1', '15', '28'])
            elif k == 'save':
                if f[8] not in ('0', '0:00'):
                    f[8] = rnd.choice(['1:00', '0:30', '2:00', '0:45', '1:30'])
                else:
                    continue
            else:
                y = rnd.randrange(2000, 2040)
                f[2], f[3] = str(y), rnd.choice(['max', str(y + rnd.randrange(1, 9)), 'only'])
        elif f[0] == 'Zone' and len(f) >= 5 and f[3] in ('-',):
            hh = rnd.randrange(-11, 13)
            mm = rnd.choice([0, 0, 30, 45, 7, 37, 20])   # remainders >= 8 modulo 15: see the fixed program 'offgrid8' (known finding)
            f[2] = ('%d:%02d' % (hh, mm)) if hh >= 0 else ('-%d:%02d' % (-hh, mm))
            f[4] = ('%+03d%02d' % (hh, mm)) if mm else ('%+03d' % hh)
        else:
            continue
        out = lines[:]
        out[i] = '\t'.join(f)
        return '\n'.join(out) + '\n', '%s -> %s' % (lines[i].replace('\t', ' '), out[i].replace('\t', ' '))
    return text, 'unchanged'
