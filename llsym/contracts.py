"""Function contracts for the calendar kernels.

A contract replaces a call to a leaf kernel by fresh result variables
constrained by the table-driven calendar specification (spec/calendar.py).
Every contract is exact (the spec determines the result uniquely), its
precondition becomes an obligation at each call site, and the contract itself
is an obligation discharged against the real IR by the C06 kernel lemmas:

  LocalDate::forEpochDays(n)   n in [D_LO, D_HI):  valid(y,m,d) and spec_days(y,m,d) == n   [c06_days_to_date]
  LocalDate::toEpochDays()     valid(y,m,d):       result == spec_days(y,m,d)               [c06_date_to_days]
  LocalTime::forSeconds(s)     0 <= s < 86400:     h<24, mi<60, sec<60, 3600h+60mi+sec == s [c06_time_for_seconds]
  LocalTime::toSeconds()       h<24, mi<60, s<60:  result == 3600h+60mi+sec                 [c06_local_time]

With concrete arguments the real code is executed instead.
"""
import z3
from .loader import Ptr
from spec import calendar as cal

D_LO, D_HI = cal.days(1873, 1, 1), cal.days(2127, 12, 31) + 1

FOR_EPOCH_DAYS = '_ZN8ace_time9LocalDate12forEpochDaysEi'
TO_EPOCH_DAYS = '_ZNK8ace_time9LocalDate11toEpochDaysEv'
FOR_SECONDS = '_ZN8ace_time9LocalTime10forSecondsEi'
TO_SECONDS = '_ZNK8ace_time9LocalTime9toSecondsEv'


def _is_conc(v):
    return type(v) is int


def _pre(eng, st, cond, what):
    """Contract precondition: an obligation at the call site (and assumed afterwards)."""
    c = z3.simplify(cond)
    if z3.is_true(c):
        return
    st.obligations.append(('contract-pre', z3.Not(c), what, list(st.pc)))
    st.pc.append(c)
    st.user['contracts_used'] = st.user.get('contracts_used', 0) + 1


def for_epoch_days(eng, st, args):
    n = args[0]
    if _is_conc(n):
        return NotImplemented
    _pre(eng, st, z3.And(n >= D_LO, n < D_HI), 'LocalDate::forEpochDays argument within [%d,%d)' % (D_LO, D_HI))
    yt, m, d = eng.fresh('fed_yt', 8), eng.fresh('fed_m', 8), eng.fresh('fed_d', 8)
    st.pc.append(z3.And(cal.z3_valid_date(yt, m, d), cal.z3_days(yt, m, d) == n))
    st.user['contracts_used'] = st.user.get('contracts_used', 0) + 1
    return z3.Concat(d, m, yt)


def _fields(eng, st, p, names):
    out = []
    for k in range(3):
        out.append(eng.load(st, Ptr(p.obj, p.off + k), 1, 'i', 8))
    return out


def to_epoch_days(eng, st, args):
    yt, m, d = _fields(eng, st, args[0], 'ymd')
    if _is_conc(yt) and _is_conc(m) and _is_conc(d):
        return NotImplemented
    yt, m, d = [z3.BitVecVal(v, 8) if _is_conc(v) else v for v in (yt, m, d)]
    _pre(eng, st, cal.z3_valid_date(yt, m, d), 'LocalDate::toEpochDays on a valid calendar date')
    return cal.z3_days(yt, m, d)


def for_seconds(eng, st, args):
    s = args[0]
    if _is_conc(s):
        return NotImplemented
    _pre(eng, st, z3.And(s >= 0, s < 86400), 'LocalTime::forSeconds argument within [0,86400)')
    h, mi, sec = eng.fresh('fs_h', 8), eng.fresh('fs_mi', 8), eng.fresh('fs_s', 8)
    st.pc.append(z3.And(z3.ULT(h, 24), z3.ULT(mi, 60), z3.ULT(sec, 60),
                        z3.ZeroExt(24, h) * 3600 + z3.ZeroExt(24, mi) * 60 + z3.ZeroExt(24, sec) == s))
    return z3.Concat(sec, mi, h)


def to_seconds(eng, st, args):
    h, mi, sec = _fields(eng, st, args[0], 'hms')
    if _is_conc(h) and _is_conc(mi) and _is_conc(sec):
        return NotImplemented
    h, mi, sec = [z3.BitVecVal(v, 8) if _is_conc(v) else v for v in (h, mi, sec)]
    _pre(eng, st, z3.And(z3.ULT(h, 24), z3.ULT(mi, 60), z3.ULT(sec, 60)), 'LocalTime::toSeconds on a valid time')
    return z3.ZeroExt(24, h) * 3600 + z3.ZeroExt(24, mi) * 60 + z3.ZeroExt(24, sec)


CALENDAR = {FOR_EPOCH_DAYS: for_epoch_days, TO_EPOCH_DAYS: to_epoch_days, FOR_SECONDS: for_seconds,
            TO_SECONDS: to_seconds}


def install(eng, which=None):
    for k, f in CALENDAR.items():
        if which is None or k in which:
            eng.intercepts[k] = f
    return sorted(eng.intercepts)
