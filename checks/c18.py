#!/usr/bin/env python3
"""C18 — rule day resolution (lastSun, Sun>=8, Fri<=1) agrees in C++, Python and the calendar.

C++: BasicZoneProcessor::calcStartDayOfMonth on the real IR, year/weekday/day-of-month symbolic, month and
expression kind a driver case split.  Python: tools/tzdb/transformer.calc_day_of_month and the admission filter
of _create_rules_with_on_day_expansion executed by pysym (see checks/c18_py.py).  Both are compared with the same
calendar specification (spec/calendar.py), rendered as bit-vector terms for C++ and as integer terms for Python."""
import sys
import os
sys.path.insert(0, os.path.dirname(os.path.abspath(__file__)))
import common  # noqa: E402
import z3  # noqa: E402
from spec import calendar as cal  # noqa: E402

KINDS = {0: 'exact', 1: 'last', 2: '>=', 3: '<='}


_ADM = {}


def _real_filter_admits(on_day, month):
    """Run the repository's own admission code (Transformer._create_rules_with_on_day_expansion) on one rule."""
    import io
    import contextlib
    sys.path.insert(0, os.path.join(common.build.REPO, 'tools'))
    from tzdb.transformer import Transformer
    t = Transformer.__new__(Transformer)
    t.all_removed_policies = {}
    t.all_notable_policies = {}
    with contextlib.redirect_stdout(io.StringIO()):
        r = t._create_rules_with_on_day_expansion({'P': [{'onDay': on_day, 'inMonth': month}]})
    return 'P' in r


def admitted_ranges(month, kind):
    """Day-of-month ranges the transformer's filter admits, obtained by running the real filter code of the
    current tree on every ON string of that shape (finite: 31 day numbers per month and kind)."""
    key = (month, kind)
    if key not in _ADM:
        if kind in (0, 1):
            ok = _real_filter_admits('15' if kind == 0 else 'lastSun', month)
            _ADM[key] = [(0, 0)] if ok else []
        else:
            op = '>=' if kind == 2 else '<='
            days = [d for d in range(1, 32) if _real_filter_admits('Sun%s%d' % (op, d), month)]
            rs = []
            for d in days:
                if rs and rs[-1][1] == d - 1:
                    rs[-1] = (rs[-1][0], d)
                else:
                    rs.append((d, d))
            _ADM[key] = rs
    return _ADM[key]


def _u8(v):
    return z3.Extract(7, 0, v) if not isinstance(v, int) else z3.BitVecVal(v & 0xff, 8)


def spec(yt, M, dow, dom, kind):
    """(month, day, other_year, limit_valid) of the calendar's answer; dom is the absolute day number (BV8)."""
    Mv = z3.BitVecVal(M, 8)
    dim = cal.z3_dim(yt, Mv)

    def wd(d):
        return z3.Extract(7, 0, cal.z3_weekday(cal.z3_days(yt, Mv, d)))
    if kind == 0:
        return Mv, dom, z3.BoolVal(False), z3.And(z3.UGE(dom, 1), z3.ULE(dom, dim))
    if kind == 1:
        shift = z3.URem(wd(dim) - dow + 7, 7)
        return Mv, dim - shift, z3.BoolVal(False), z3.BoolVal(True)
    if kind == 2:
        shift = z3.URem(dow - wd(dom) + 7, 7)
        day = dom + shift
        spill = z3.UGT(day, dim)
        return (z3.If(spill, Mv + 1, Mv), z3.If(spill, day - dim, day), z3.And(spill, M == 12),
                z3.And(z3.UGE(dom, 1), z3.ULE(dom, dim)))
    shift = z3.URem(wd(dom) - dow + 7, 7)
    day = dom - shift          # may wrap below 1: compare as signed
    spill = day <= 0
    pm = M - 1 if M > 1 else 12
    pdim = cal.z3_dim(yt, z3.BitVecVal(pm, 8)) if M > 1 else z3.BitVecVal(31, 8)
    return (z3.If(spill, Mv - 1, Mv), z3.If(spill, day + pdim, day), z3.And(spill, M == 1),
            z3.And(z3.UGE(dom, 1), z3.ULE(dom, dim)))


def post(item, obs, leaf):
    M, kind = item['args'][0], item['args'][1]
    year, dow, dom = [t for (_, t, _) in leaf.nondet][:3]
    yt = z3.Extract(7, 0, year - 2000)
    adom = dom if kind != 3 else -dom
    sm, sd, other, valid = spec(yt, M, dow, adom, kind)
    gm, gd = _u8(obs['month']), _u8(obs['day'])
    out = [('cpp==calendar', z3.And(valid, z3.Not(other), z3.Or(gm != sm, gd != sd)))]
    if item.get('admitted'):
        out.append(('admitted=>same-year', z3.And(valid, other)))
    return out


def spec_concrete(r, tag, nd, obs):
    M, kind = r['args'][0], r['args'][1]
    year = nd['year'] - (1 << 16) if nd['year'] >> 15 else nd['year']
    dow = nd['dow']
    dom = nd['dom'] - 256 if nd['dom'] >> 7 else nd['dom']
    want = concrete_spec(year, M, dow, dom)
    if want is None:
        return False
    if tag == 'admitted=>same-year':
        return want[2]
    return (not want[2]) and (obs.get('month'), obs.get('day')) != (want[0], want[1])


def concrete_spec(year, M, dow, dom):
    """Calendar answer by linear search (independent of the closed forms above)."""
    dim = cal.dim(year, M)

    def wd(d):
        return cal.weekday(cal.days(year, M, d))
    if dow == 0:
        return (M, dom, False) if 1 <= dom <= dim else None
    if dom == 0:
        for d in range(dim, dim - 7, -1):
            if wd(d) == dow:
                return (M, d, False)
    if dom > 0:
        if dom > dim:
            return None
        n = cal.days(year, M, dom)
        for k in range(7):
            if cal.weekday(n + k) == dow:
                y, m, d = cal.civil(n + k)
                return (m if y == year else 13, d, y != year)
    a = -dom
    if a > dim:
        return None
    n = cal.days(year, M, a)
    for k in range(7):
        if cal.weekday(n - k) == dow:
            y, m, d = cal.civil(n - k)
            return (m if y == year else 0, d, y != year)


def items(a, thorough):
    to = 600 if thorough else 200
    out = []
    for M in range(1, 13):
        for kind in range(4):
            for (lo, hi) in admitted_ranges(M, kind):
                out.append(dict(name='cpp/month=%02d/%s/%d-%d' % (M, KINDS[kind], lo, hi), entry='c18_start_day',
                                args=[M, kind, lo, hi], timeout=to, feas_ms=1000, post=post, admitted=True,
                                diff=False))
    return out


def bounds(a, thorough):
    return {'year': '1873..2126 symbolic (int16)', 'weekday': '1..7 symbolic (0 for exact-day rules)',
            'day_of_month': 'symbolic within the ranges the transformer filter admits, limit date must exist '
                            '(day <= days in month)',
            'case_split': 'month (12) x expression kind (exact, last, >=, <=) x admitted day range', 'loop_unwinding': 64}


def python_part(kc):
    import c18_py
    tasks = [dict(name='py/month=%02d/kind=%d' % (M, k), month=M, kind=k) for M in range(1, 13) for k in range(4)]
    res = kc.run_items(tasks, jobs=16, fn=c18_py.worker)
    kc.results = [r for r in kc.results if 'obligations' in r]
    tot = {'paths': 0, 'queries': 0, 'unsat': 0, 'unknown': 0, 'solver_time': 0.0}
    for r in res:
        if r['error']:
            kc.inconclusive.append('%s: %s' % (r['name'], r['error']))
            continue
        for k in tot:
            tot[k] += r[k]
        if r['unknown']:
            kc.inconclusive.append('%s: %d python-side queries unknown' % (r['name'], r['unknown']))
        M, kind = int(r['name'].split('month=')[1][:2]), int(r['name'][-1])
        for (what, mdl) in r['sat']:
            ok = c18_py.concrete_confirm(mdl, M, kind, what)
            kc._record('python:%s:month=%d:%s' % (what.split(':')[0], M, KINDS[kind]),
                       'python side, month %d, %s: %s for %s' % (M, KINDS[kind], what, mdl), ok, {'values': mdl, 'month': M, 'kind': kind})
    kc.extra_coverage['python_side'] = dict(tot, functions=['tzdb.transformer.calc_day_of_month', 'tzdb.transformer._days_in_month',
                                                            'Transformer._create_rules_with_on_day_expansion (admission filter)'],
                                            stubs=['datetime.date -> calendar-spec stand-in (isoweekday via spec tables, ValueError for a '
                                                   'non-existent day)', '_parse_on_day_string -> returns the symbolic (weekday, day) pair'],
                                            samples=[s for r in res for s in r.get('samples', [])][:3])


if __name__ == '__main__':
    common.simple_kernel_main(
        'C18', ['h_c18.cpp'], items,
        'one obligation = path condition AND negated (C++ result == calendar spec) / (admitted => answer in the same '
        'year) / UB trap, over symbolic year, weekday and day-of-month; distinct = (month, kind, range, path, obligation)',
        bounds, outside=['years outside 1873..2126', 'ON day numbers above the month length (rejected by zic itself)'],
        jobs=12, spec_concrete=spec_concrete, post_run=python_part)
