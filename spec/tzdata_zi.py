"""De-shrink /usr/share/zoneinfo/tzdata.zi (compact zic input, 2025b) into the Rule/Zone/Link syntax that
tools/tzdb/extractor.py reads, and rewrite the %z format (not in the documented AceTime feature set) into explicit
abbreviations where the era allows it.  zic and tzcompiler are both given the *rewritten* text."""
import re

MONTHS = ['January', 'February', 'March', 'April', 'May', 'June', 'July', 'August', 'September', 'October', 'November', 'December']
DAYS = ['Monday', 'Tuesday', 'Wednesday', 'Thursday', 'Friday', 'Saturday', 'Sunday']


def _prefix(word, names):
    m = [n for n in names if n.lower().startswith(word.lower())]
    if len(m) != 1:
        raise ValueError('ambiguous or unknown abbreviation %r' % word)
    return m[0][:3]


def month(w):
    return _prefix(w, MONTHS)


def on_field(w):
    if w.isdigit():
        return w
    if w.startswith('last'):
        return 'last' + _prefix(w[4:], DAYS)
    m = re.match(r'^([A-Za-z]+)([<>]=)(\d+)$', w)
    if m:
        return _prefix(m.group(1), DAYS) + m.group(2) + m.group(3)
    raise ValueError('ON field %r' % w)


def hm(w):
    """'2' -> '2:00', '-3:30' stays, keeps a trailing suffix letter"""
    m = re.match(r'^(-?)(\d+)(?::(\d+))?(?::(\d+))?([wsugz]?)$', w)
    if not m:
        return w
    sign, h, mi, s, suf = m.groups()
    out = '%s%s:%s' % (sign, h, mi or '00')
    if s and s != '00':
        out += ':' + s
    return out + suf


def _seconds(w):
    m = re.match(r'^(-?)(\d+)(?::(\d+))?(?::(\d+))?', w)
    sign, h, mi, s = m.groups()
    v = int(h) * 3600 + int(mi or 0) * 60 + int(s or 0)
    return -v if sign else v


def _abbr(total):
    sign = '-' if total < 0 else '+'
    a = abs(total)
    h, m = a // 3600, a % 3600 // 60
    return '%s%02d%02d' % (sign, h, m) if m else '%s%02d' % (sign, h)


def deshrink(path='/usr/share/zoneinfo/tzdata.zi'):
    """Returns (text, info): info lists zones skipped because %z could not be rewritten."""
    rules = {}
    zones = []       # (name, [era field lists])
    links = []
    cur = None
    for ln in open(path, encoding='utf-8'):
        ln = ln.split('#')[0].rstrip()
        if not ln:
            continue
        f = ln.split()
        if f[0] == 'R':
            name, fr, to, _, mo, on, at, save, letter = f[1:10]
            if not to[0].isdigit():
                to = 'only' if 'only'.startswith(to) else 'max'
            rules.setdefault(name, []).append([name, fr, to, '-', month(mo), on_field(on), hm(at), hm(save), letter])
            cur = None
        elif f[0] == 'Z':
            cur = (f[1], [])
            zones.append(cur)
            cur[1].append(f[2:])
        elif f[0] == 'L':
            links.append((f[1], f[2]))
            cur = None
        else:
            if cur is None:
                raise ValueError('continuation without zone: ' + ln)
            cur[1].append(f)
    out = []
    skipped = {}
    saves = dict((n, sorted(set(_seconds(r[7]) for r in rs))) for n, rs in rules.items())
    for name, rs in rules.items():
        for r in rs:
            out.append('Rule\t' + '\t'.join(r))
    emitted = set()
    for zname, eras in zones:
        lines = []
        ok = True
        for k, e in enumerate(eras):
            std, rl, fmt = e[0], e[1], e[2]
            until = e[3:]
            if fmt == '%z':
                base = _seconds(std)
                if rl == '-':
                    fmt = _abbr(base)
                elif re.match(r'^-?\d', rl):
                    fmt = _abbr(base + _seconds(rl))
                else:
                    nz = [s for s in saves.get(rl, []) if s != 0]
                    if len(nz) > 1:
                        ok = False
                        skipped[zname] = 'era with %%z and rules %s having %d different SAVE values' % (rl, len(nz))
                        break
                    fmt = _abbr(base) + '/' + _abbr(base + (nz[0] if nz else 0)) if nz else _abbr(base)
            if until:
                until = [until[0]] + ([month(until[1])] if len(until) > 1 else []) + until[2:3] + ([hm(until[3])] if len(until) > 3 else [])
            rl2 = hm(rl) if re.match(r'^-?\d', rl) else rl
            body = '\t'.join([hm(std), rl2, fmt] + ([' '.join(until)] if until else []))
            lines.append(('Zone\t%s\t%s' % (zname, body)) if k == 0 else ('\t\t\t' + body))
        if ok:
            out.extend(lines)
            emitted.add(zname)
    for target, link in links:
        if target in emitted:
            out.append('Link\t%s\t%s' % (target, link))
        else:
            skipped[link] = 'link to a skipped zone'
    return '\n'.join(out) + '\n', {'zones': len(zones), 'rules': sum(len(v) for v in rules.values()), 'links': len(links),
                                   'skipped_by_harness': skipped}
