#!/usr/bin/env python3
"""C14 — SystemClockLoop: applies good responses, backs off, never corrupts time (one-step + k-step BMC on the IR)."""
import sys
import os
sys.path.insert(0, os.path.dirname(os.path.abspath(__file__)))
import common  # noqa: E402

RULE = ('one-step obligations from an arbitrary state of the four-state machine (status concrete case split; periods, timeout, '
        'timers, 64-bit millis, clock state, reference readiness and response all symbolic) + k-step bounded model checking '
        'from the constructed initial state with symbolic gaps and reference outcomes; distinct = (entry, status/config, path, assertion)')


def items(a, thorough):
    to = 600 if thorough else 200
    out = []
    for st in range(4):
        for cfg in range(3):
            out.append(dict(name='step/status=%d/backup=%d' % (st, cfg), entry='c14_step', args=[st, cfg, 0, 0], timeout=to,
                            loop_limit=70, feas_ms=5000, budget_s=600))
    out.append(dict(name='no_reference', entry='c14_no_reference', args=[0, 0, 0, 0], timeout=to, loop_limit=70))
    k0 = 8 if thorough else 7
    k1 = 6 if thorough else 4
    out.append(dict(name='bmc/never-ready/k=%d' % k0, entry='c14_bmc', args=[k0, 0, 0, 0], timeout=to, loop_limit=70, budget_s=900))
    out.append(dict(name='bmc/nondet/k=%d' % k1, entry='c14_bmc', args=[k1, 1, 0, 0], timeout=to, loop_limit=70, budget_s=900))
    return out


def bounds(a, thorough):
    return {'one_step': 'status 0..3 x backup in {distinct, same as reference, none}; syncPeriod, initialPeriod <= syncPeriod, current '
            'period in [1, sync], timeout: all uint16; millis/timers: all 64-bit with timers <= now; clock at most 999 ms behind '
            '(C13 invariant); reference ready/valid/invalid symbolic',
            'bmc': 'config (sync 4 s, initial 1 s, timeout 1000 ms); gaps 600..999 ms; k steps as named', 'loop_unwinding': 70}


if __name__ == '__main__':
    common.simple_kernel_main('C14', ['h_c14.cpp'], items, RULE, bounds,
                              outside=['histories longer than k for the liveness clause', 'SystemClockCoroutine',
                                       'catch-up of more than one second inside a loop() step (that loop is C13)'],
                              extra_assumptions=['reference and backup clocks are harness stubs returning arbitrary values '
                                                 'within their documented contract', 'TimingStats not attached'], jobs=16)
