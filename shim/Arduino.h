// /verif shim: minimal Arduino.h
#ifndef VERIF_SHIM_ARDUINO_H
#define VERIF_SHIM_ARDUINO_H
#include <stdint.h>
#include <stddef.h>
#include <string.h>
#include <stdlib.h>
#include "pgmspace.h"
#include "Print.h"
class __FlashStringHelper;
#define F(s) (reinterpret_cast<const __FlashStringHelper*>(s))
#define FPSTR(p) (reinterpret_cast<const __FlashStringHelper*>(p))
extern "C" unsigned long millis();
class VerifNullSerial : public Print {
  public:
    size_t write(uint8_t) override { return 1; }
    using Print::write;
};
extern VerifNullSerial Serial;
#define SERIAL_PORT_MONITOR Serial
typedef bool boolean;
typedef uint8_t byte;
#endif
