// Zone-level query harnesses (C01, C02, C05, C07, C08, C09 share them).
#include <AceTime.h>
#include "verif.h"
using namespace ace_time;

// private state is reached through the friend test-class names the library already declares
class BasicZoneProcessorTest_init {
  public:
    static long numTransitionsOffset() {
      BasicZoneProcessor p;
      return (long) ((const char*) &p.mNumTransitions - (const char*) &p);
    }
};

class ExtendedZoneProcessorTest_setZoneInfo {
  public:
    static long poolSize() { return ExtendedZoneProcessor::kMaxTransitions; }
};

ENTRY(z_layout) {
  __verif_observe("bas_numTransitions_off", BasicZoneProcessorTest_init::numTransitionsOffset());
}

// lemma L_Y: fields of the real LocalDate::forEpochSeconds(t) for t in [a0, a1)  (compared on the Python side)
ENTRY(z_year_lemma) {
  int32_t t = __verif_nondet_i32("t");
  __verif_assume(t >= (int32_t) a0 && t < (int32_t) a1);
  LocalDate ld = LocalDate::forEpochSeconds(t);
  __verif_observe("yearTiny", ld.yearTiny());
  __verif_observe("month", ld.month());
  __verif_observe("day", ld.day());
}

static void observeQuery(const TimeZone& tz, acetime_t t) {
  TimeOffset off = tz.getUtcOffset(t);
  __verif_observe("off", off.toMinutes());
  TimeOffset delta = tz.getDeltaOffset(t);
  __verif_observe("delta", delta.toMinutes());
  const char* abbrev = tz.getAbbrev(t);
  __verif_observe_str("abbrev", abbrev);
}

// extended zone a0, instant t in [a1, a2)
ENTRY(z_ext_query) {
  ExtendedZoneProcessor proc;
  TimeZone tz = TimeZone::forZoneInfo(zonedbx::kZoneRegistry[a0], &proc);
  int32_t t = __verif_nondet_i32("t");
  __verif_assume(t >= (int32_t) a1 && t < (int32_t) a2);
  observeQuery(tz, t);
}

// basic zone a0, instant t in [a1, a2)
ENTRY(z_bas_query) {
  BasicZoneProcessor proc;
  TimeZone tz = TimeZone::forZoneInfo(zonedb::kZoneRegistry[a0], &proc);
  int32_t t = __verif_nondet_i32("t");
  __verif_assume(t >= (int32_t) a1 && t < (int32_t) a2);
  observeQuery(tz, t);
}

ENTRY(z_ext_name) { __verif_observe_str("name", ExtendedZone(zonedbx::kZoneRegistry[a0]).name() ? (const char*) ExtendedZone(zonedbx::kZoneRegistry[a0]).name() : ""); }
ENTRY(z_bas_name) { __verif_observe_str("name", (const char*) BasicZone(zonedb::kZoneRegistry[a0]).name()); }
ENTRY(z_sizes) {
  __verif_observe("ext", zonedbx::kZoneRegistrySize);
  __verif_observe("bas", zonedb::kZoneRegistrySize);
}

// C05 on database zones: zoned date-time from the instant t in [a1,a2) and back; conversion into zone a3 of the
// other kind of processor keeps the instant.
static void zdtRoundTrip(const TimeZone& tz, const TimeZone& other, int32_t t) {
  ZonedDateTime z = ZonedDateTime::forEpochSeconds(t, tz);
  __verif_observe("zoff", z.timeOffset().toMinutes());
  __verif_assert(!z.isError(), "zoned not-error");
  __verif_assert(z.toEpochSeconds() == t, "ZonedDateTime: toEpochSeconds(forEpochSeconds(t,tz))==t");
  if (t <= 2147483647 - 946684800) {   // Unix seconds are representable only until 2038-01-19 (documented)
    __verif_assert(z.toUnixSeconds() == t + 946684800, "unix difference");
  }
  __verif_assert(z.timeOffset().toMinutes() == tz.getUtcOffset(t).toMinutes(), "offset used is getUtcOffset(t)");
  ZonedDateTime w = z.convertToTimeZone(other);
  __verif_assert(!w.isError() && w.toEpochSeconds() == t, "convertToTimeZone keeps the epoch seconds");
  __verif_assert(w.compareTo(z) == 0, "converted compares equal by instant");
}

ENTRY(z_ext_zdt) {
  ExtendedZoneProcessor proc;
  ExtendedZoneProcessor proc2;
  TimeZone tz = TimeZone::forZoneInfo(zonedbx::kZoneRegistry[a0], &proc);
  TimeZone other = TimeZone::forZoneInfo(zonedbx::kZoneRegistry[a3], &proc2);
  int32_t t = __verif_nondet_i32("t");
  __verif_assume(t >= (int32_t) a1 && t < (int32_t) a2);
  zdtRoundTrip(tz, other, t);
}

ENTRY(z_bas_zdt) {
  BasicZoneProcessor bproc;
  BasicZoneProcessor bproc2;
  TimeZone tz = TimeZone::forZoneInfo(zonedb::kZoneRegistry[a0], &bproc);
  TimeZone other = TimeZone::forZoneInfo(zonedb::kZoneRegistry[a3], &bproc2);
  int32_t t = __verif_nondet_i32("t");
  __verif_assume(t >= (int32_t) a1 && t < (int32_t) a2);
  zdtRoundTrip(tz, other, t);
}

// manager-created zones (cache of 1 slot, two zones competing)
ENTRY(z_mgr_zdt) {
  ExtendedZoneManager<1> mgr(zonedbx::kZoneRegistrySize, zonedbx::kZoneRegistry);
  TimeZone tz = mgr.createForZoneIndex((uint16_t) a0);
  TimeZone other = mgr.createForZoneIndex((uint16_t) a3);
  int32_t t = __verif_nondet_i32("t");
  __verif_assume(t >= (int32_t) a1 && t < (int32_t) a2);
  zdtRoundTrip(tz, other, t);
}

// C05, "compareTo orders values by instant" inside ONE database zone: two instants t < t + d around a backward offset change
// (wall-clock order and instant order disagree there).  a0 zone, t in [a1,a2), d in [1,a3].
static void zdtOrder(const TimeZone& tz, const TimeZone& same, int32_t t, int32_t d) {
  ZonedDateTime z1 = ZonedDateTime::forEpochSeconds(t, tz);
  ZonedDateTime z2 = ZonedDateTime::forEpochSeconds(t + d, same);
  __verif_observe("off1", z1.timeOffset().toMinutes());
  __verif_observe("off2", z2.timeOffset().toMinutes());
  __verif_assert(!z1.isError() & !z2.isError(), "zoned not-error");
  int8_t c12 = z1.compareTo(z2);
  int8_t c21 = z2.compareTo(z1);
  __verif_observe("c12", c12);
  __verif_assert((c12 < 0) & (c21 > 0), "ZonedDateTime::compareTo orders two values of the same zone by instant");
}

ENTRY(z_ext_order) {
  ExtendedZoneProcessor proc;
  TimeZone tz = TimeZone::forZoneInfo(zonedbx::kZoneRegistry[a0], &proc);
  int32_t t = __verif_nondet_i32("t");
  int32_t d = __verif_nondet_i32("d");
  __verif_assume(t >= (int32_t) a1 && t < (int32_t) a2 && d >= 1 && d <= (int32_t) a3);
  zdtOrder(tz, tz, t, d);
}

ENTRY(z_bas_order) {
  BasicZoneProcessor bproc;
  TimeZone tz = TimeZone::forZoneInfo(zonedb::kZoneRegistry[a0], &bproc);
  int32_t t = __verif_nondet_i32("t");
  int32_t d = __verif_nondet_i32("d");
  __verif_assume(t >= (int32_t) a1 && t < (int32_t) a2 && d >= 1 && d <= (int32_t) a3);
  zdtOrder(tz, tz, t, d);
}

// two TimeZone objects created by one manager for the same zone (they share the cached processor)
ENTRY(z_mgr_order) {
  ExtendedZoneManager<1> mgr(zonedbx::kZoneRegistrySize, zonedbx::kZoneRegistry);
  TimeZone tz = mgr.createForZoneIndex((uint16_t) a0);
  TimeZone same = mgr.createForZoneIndex((uint16_t) a0);
  int32_t t = __verif_nondet_i32("t");
  int32_t d = __verif_nondet_i32("d");
  __verif_assume(t >= (int32_t) a1 && t < (int32_t) a2 && d >= 1 && d <= (int32_t) a3);
  zdtOrder(tz, same, t, d);
}

// C08, inductive step: whatever an earlier history left in the recycled parts of a processor (transition pool / cache
// slots, match array) - modelled as arbitrary bytes - a query that has to rebuild the cache answers what a processor
// with zero-filled storage answers.  Zone a0, instant t in [a1,a2).  (friend test-class names declared by the library)
class TransitionStorageTest_getFreeAgent {
  public:
    template <uint8_t N> static uint8_t* pool(extended::TransitionStorage<N>& ts) { return (uint8_t*) ts.mPool; }
    template <uint8_t N> static unsigned poolBytes(extended::TransitionStorage<N>& ts) { return sizeof(ts.mPool); }
};
class ExtendedZoneProcessorTest_createMatch {
  public:
    static void havoc(ExtendedZoneProcessor& p) {
      uint8_t* b = TransitionStorageTest_getFreeAgent::pool(p.mTransitionStorage);
      for (unsigned i = 0; i < TransitionStorageTest_getFreeAgent::poolBytes(p.mTransitionStorage); i++) b[i] = __verif_nondet_u8("pool");
      uint8_t* m = (uint8_t*) p.mMatches;
      for (unsigned i = 0; i < sizeof(p.mMatches); i++) m[i] = __verif_nondet_u8("match");
    }
    static void zero(ExtendedZoneProcessor& p) {
      uint8_t* b = TransitionStorageTest_getFreeAgent::pool(p.mTransitionStorage);
      for (unsigned i = 0; i < TransitionStorageTest_getFreeAgent::poolBytes(p.mTransitionStorage); i++) b[i] = 0;
      uint8_t* m = (uint8_t*) p.mMatches;
      for (unsigned i = 0; i < sizeof(p.mMatches); i++) m[i] = 0;
    }
};
class BasicZoneProcessorTest_init_primitives {
  public:
    static void havoc(BasicZoneProcessor& p) {
      uint8_t* b = (uint8_t*) p.mTransitions;
      for (unsigned i = 0; i < sizeof(p.mTransitions); i++) b[i] = __verif_nondet_u8("slot");
    }
    static void zero(BasicZoneProcessor& p) {
      uint8_t* b = (uint8_t*) p.mTransitions;
      for (unsigned i = 0; i < sizeof(p.mTransitions); i++) b[i] = 0;
    }
};

static void sameAnswers(const TimeZone& dirty, const TimeZone& clean, acetime_t t) {
  __verif_assert(dirty.getUtcOffset(t).toMinutes() == clean.getUtcOffset(t).toMinutes(), "offset independent of stale storage");
  __verif_assert(dirty.getDeltaOffset(t).toMinutes() == clean.getDeltaOffset(t).toMinutes(), "DST offset independent of stale storage");
  const char* x = dirty.getAbbrev(t);
  const char* y = clean.getAbbrev(t);
  bool same = true;
  for (int i = 0; i < 8; i++) {
    if (x[i] != y[i]) { same = false; break; }
    if (x[i] == 0) break;
  }
  __verif_assert(same, "abbreviation independent of stale storage");
}

ENTRY(z_ext_havoc) {
  ExtendedZoneProcessor dirtyProc, cleanProc;
  ExtendedZoneProcessorTest_createMatch::havoc(dirtyProc);
  ExtendedZoneProcessorTest_createMatch::zero(cleanProc);
  TimeZone dirty = TimeZone::forZoneInfo(zonedbx::kZoneRegistry[a0], &dirtyProc);
  TimeZone clean = TimeZone::forZoneInfo(zonedbx::kZoneRegistry[a0], &cleanProc);
  int32_t t = __verif_nondet_i32("t");
  __verif_assume(t >= (int32_t) a1 && t < (int32_t) a2);
  sameAnswers(dirty, clean, t);
}

ENTRY(z_bas_havoc) {
  BasicZoneProcessor dirtyProc, cleanProc;
  BasicZoneProcessorTest_init_primitives::havoc(dirtyProc);
  BasicZoneProcessorTest_init_primitives::zero(cleanProc);
  TimeZone dirty = TimeZone::forZoneInfo(zonedb::kZoneRegistry[a0], &dirtyProc);
  TimeZone clean = TimeZone::forZoneInfo(zonedb::kZoneRegistry[a0], &cleanProc);
  int32_t t = __verif_nondet_i32("t");
  __verif_assume(t >= (int32_t) a1 && t < (int32_t) a2);
  sameAnswers(dirty, clean, t);
}

// C09: transition buffer bound of the extended processor for zone a0, instant t in [a1,a2)
ENTRY(z_ext_highwater) {
  ExtendedZoneProcessor proc;
  const extended::ZoneInfo* zi = zonedbx::kZoneRegistry[a0];
  TimeZone tz = TimeZone::forZoneInfo(zi, &proc);
  int32_t t = __verif_nondet_i32("t");
  __verif_assume(t >= (int32_t) a1 && t < (int32_t) a2);
  TimeOffset off = tz.getUtcOffset(t);
  __verif_observe("isError", off.isError());
  __verif_observe("highWater", proc.getTransitionHighWater());
  __verif_observe("bufSize", zi->transitionBufSize);
  __verif_observe("poolSize", ExtendedZoneProcessorTest_setZoneInfo::poolSize());
}

// C07: local time resolution.  Zone a0, concrete date (year a1, month a2, day a3), time of day symbolic.
static void localResolution(const TimeZone& tz, long year, long month, long day) {
  uint8_t hh = __verif_nondet_u8("hour"), mi = __verif_nondet_u8("minute"), ss = __verif_nondet_u8("second");
  __verif_assume(hh < 24 && mi < 60 && ss < 60);
  // prime the processor's cache with an earlier instant (300 days before, usually the previous year): the answer
  // must not depend on it
  acetime_t prime = (LocalDate::forComponents((int16_t) year, (uint8_t) month, (uint8_t) day).toEpochDays() - 300) * (acetime_t) 86400;
  tz.getUtcOffset(prime);
  ZonedDateTime z = ZonedDateTime::forComponents((int16_t) year, (uint8_t) month, (uint8_t) day, hh, mi, ss, tz);
  __verif_observe("isError", z.isError());
  __verif_observe("yearTiny", z.yearTiny());
  __verif_observe("month", z.month());
  __verif_observe("day", z.day());
  __verif_observe("hour", z.hour());
  __verif_observe("minute", z.minute());
  __verif_observe("second", z.second());
  __verif_observe("offset", z.timeOffset().toMinutes());
  acetime_t t = z.toEpochSeconds();
  __verif_observe("epoch", t);
  // normalised: rebuilding it from its own epoch seconds gives the same fields and offset
  ZonedDateTime r = ZonedDateTime::forEpochSeconds(t, tz);
  __verif_assert(z.isError() || ((r.yearTiny() == z.yearTiny()) & (r.month() == z.month()) & (r.day() == z.day())
      & (r.hour() == z.hour()) & (r.minute() == z.minute()) & (r.second() == z.second())
      & (r.timeOffset().toMinutes() == z.timeOffset().toMinutes())), "result is normalised");
}
ENTRY(z_ext_local) {
  ExtendedZoneProcessor proc;
  TimeZone tz = TimeZone::forZoneInfo(zonedbx::kZoneRegistry[a0], &proc);
  localResolution(tz, a1, a2, a3);
}
ENTRY(z_bas_local) {
  BasicZoneProcessor proc;
  TimeZone tz = TimeZone::forZoneInfo(zonedb::kZoneRegistry[a0], &proc);
  localResolution(tz, a1, a2, a3);
}
