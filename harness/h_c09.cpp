// C09 — total error handling: public date/time operations with arbitrary argument values.
#include <AceTime.h>
#include "verif.h"
using namespace ace_time;

// every accessor of a LocalDate built from arbitrary bytes; error values stay error values
ENTRY(c09_local_date_any) {
  int8_t yt = __verif_nondet_i8("yearTiny");
  uint8_t m = __verif_nondet_u8("month"), d = __verif_nondet_u8("day");
  LocalDate ld = LocalDate::forTinyComponents(yt, m, d);
  bool err = ld.isError();
  acetime_t days = ld.toEpochDays();
  acetime_t udays = ld.toUnixDays();
  __verif_assert(err == (days == LocalDate::kInvalidEpochDays), "toEpochDays sentinel iff error");
  __verif_assert(err == (udays == LocalDate::kInvalidEpochDays), "toUnixDays sentinel iff error");
  acetime_t secs = ld.toEpochSeconds();
  if (err) __verif_assert(secs == LocalDate::kInvalidEpochSeconds, "toEpochSeconds sentinel on error");
  ld.toUnixSeconds();
  ld.compareTo(LocalDate::forTinyComponents(m, d, yt));
  if (!err) ld.dayOfWeek();
  __verif_observe("days", days);
}

// dayOfWeek() on any field values, including error values (documented: "isError()" dates have no day of week)
ENTRY(c09_day_of_week_any) {
  int8_t yt = __verif_nondet_i8("yearTiny");
  uint8_t m = __verif_nondet_u8("month"), d = __verif_nondet_u8("day");
  LocalDate ld = LocalDate::forTinyComponents(yt, m, d);
  uint8_t w = ld.dayOfWeek();
  __verif_observe("dow", w);
}

ENTRY(c09_days_in_month_any) {
  int16_t y = __verif_nondet_i16("year");
  uint8_t m = __verif_nondet_u8("month");
  __verif_observe("dim", LocalDate::daysInMonth(y, m));
}

ENTRY(c09_epoch_days_any) {
  int32_t n = __verif_nondet_i32("days");
  LocalDate ld = LocalDate::forEpochDays(n);
  __verif_assert((n == LocalDate::kInvalidEpochDays) ? ld.isError() : true, "sentinel days -> error");
  LocalDate lu = LocalDate::forUnixDays(n);
  __verif_observe("yt", ld.yearTiny() + lu.yearTiny());
}

ENTRY(c09_epoch_seconds_any) {
  int32_t t = __verif_nondet_i32("t");
  LocalDateTime ldt = LocalDateTime::forEpochSeconds(t);
  __verif_assert((t == LocalDate::kInvalidEpochSeconds) == ldt.isError(), "error iff sentinel");
  LocalDate ld = LocalDate::forEpochSeconds(t);
  __verif_assert((t == LocalDate::kInvalidEpochSeconds) == ld.isError(), "LocalDate error iff sentinel");
  LocalTime lt = LocalTime::forSeconds(t);
  __verif_observe("h", lt.hour());
}

ENTRY(c09_unix_seconds_any) {
  int32_t u = __verif_nondet_i32("u");
  LocalDateTime ldt = LocalDateTime::forUnixSeconds(u);
  __verif_assert((u == LocalDate::kInvalidEpochSeconds) ? ldt.isError() : true, "sentinel -> error");
  LocalDate ld = LocalDate::forUnixSeconds(u);
  __verif_observe("yt", ldt.yearTiny() + ld.yearTiny());
}

ENTRY(c09_ldt_components_any) {
  int16_t y = __verif_nondet_i16("year");
  uint8_t m = __verif_nondet_u8("month"), d = __verif_nondet_u8("day");
  uint8_t h = __verif_nondet_u8("hour"), mi = __verif_nondet_u8("minute"), s = __verif_nondet_u8("second");
  LocalDateTime ldt = LocalDateTime::forComponents(y, m, d, h, mi, s);
  bool err = ldt.isError();
  acetime_t t = ldt.toEpochSeconds();
  __verif_assert(err ? (t == LocalDate::kInvalidEpochSeconds) : true, "error -> sentinel seconds");
  __verif_assert(err ? (ldt.toEpochDays() == LocalDate::kInvalidEpochDays) : true, "error -> sentinel days");
  ldt.toUnixSeconds(); ldt.toUnixDays();
  __verif_observe("t", t);
}

ENTRY(c09_odt_any) {
  int32_t t = __verif_nondet_i32("t");
  int16_t o = __verif_nondet_i16("offset");
  OffsetDateTime odt = OffsetDateTime::forEpochSeconds(t, TimeOffset::forMinutes(o));
  __verif_assert((t == LocalDate::kInvalidEpochSeconds || o == TimeOffset::kErrorMinutes) ? odt.isError() : true, "sentinel -> error");
  acetime_t back = odt.toEpochSeconds();
  odt.toUnixSeconds(); odt.toEpochDays(); odt.toUnixDays();
  __verif_observe("back", back);
}

ENTRY(c09_zdt_manual_any) {
  int32_t t = __verif_nondet_i32("t");
  int16_t sd = __verif_nondet_i16("std"), ds = __verif_nondet_i16("dst");
  TimeZone tz = TimeZone::forTimeOffset(TimeOffset::forMinutes(sd), TimeOffset::forMinutes(ds));
  ZonedDateTime z = ZonedDateTime::forEpochSeconds(t, tz);
  __verif_assert((t == LocalDate::kInvalidEpochSeconds) ? z.isError() : true, "sentinel -> error");
  __verif_observe("back", z.toEpochSeconds());
  TimeZone e = TimeZone::forError();
  __verif_assert(ZonedDateTime::forEpochSeconds(t, e).isError(), "error zone -> error date-time");
  __verif_assert(e.getUtcOffset(t).isError() && e.getDeltaOffset(t).isError(), "error zone -> error offsets");
}

ENTRY(c09_time_period_any) {
  int32_t s = __verif_nondet_i32("s");
  TimePeriod p(s);
  __verif_observe("secs", p.toSeconds());
  uint8_t h = __verif_nondet_u8("h"), m = __verif_nondet_u8("m"), sec = __verif_nondet_u8("sec");
  int8_t sign = __verif_nondet_i8("sign");
  TimePeriod q(h, m, sec, sign);
  __verif_observe("qs", q.toSeconds());
  q.compareTo(p);
}

ENTRY(c09_time_offset_any) {
  int8_t h = __verif_nondet_i8("h"), m = __verif_nondet_i8("m");
  TimeOffset o = TimeOffset::forHourMinute(h, m);
  int8_t hh, mm; o.toHourMinute(hh, mm);
  __verif_observe("mins", o.toMinutes());
  int16_t x = __verif_nondet_i16("x");
  TimeOffset p = TimeOffset::forMinutes(x);
  time_offset_mutation::increment15Minutes(p);
  __verif_observe("p", p.toMinutes() + p.toSeconds());
  TimeOffset::forHours(h);
}
