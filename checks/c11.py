#!/usr/bin/env python3
"""C11 — zone ids are djb2(name), unique, shared by all databases, and stable.

(1) hash_name (tools/tzdb/transformer.py) executed by pysym on strings of k symbolic characters (k = 0..8) equals the
    djb2 recurrence and the classic 32-bit C fold (hash*33 + c with wrap-around); the step lemma covers every length.
(2) The compiled tables are read through the real accessors on the IR (llsym); the facts about them (id == djb2(name),
    uniqueness, ascending order, published kZoneId* constants, basic == extended, recorded baseline, link aliases) are
    decided by SMT queries over a symbolic table index."""
import sys
import os
import re
import json
import time
sys.path.insert(0, os.path.dirname(os.path.abspath(__file__)))
import common  # noqa: E402
import z3  # noqa: E402
from llsym import build, loader, engine  # noqa: E402

PROP = 'C11'


def djb2(name):
    h = 5381
    for c in name.encode():
        h = (33 * h + c) % (1 << 32)
    return h


def gen_harness(path):
    """Harness generated from the published headers: every kZoneId* constant and every link alias."""
    src = os.path.join(build.REPO, 'src', 'ace_time')
    lines = ['#include <AceTime.h>', '#include "verif.h"', 'using namespace ace_time;']
    meta = {}
    for db, ns, zi in (('zonedb', 'zonedb', 'basic'), ('zonedbx', 'zonedbx', 'extended')):
        ids = []
        for ln in open(os.path.join(src, db, 'zone_infos.h')):
            m = re.match(r'^const uint32_t (kZoneId\w+) = (0x[0-9a-f]+); // (\S+)', ln)
            if m:
                ids.append((m.group(1), m.group(3)))
        links = []
        for ln in open(os.path.join(src, db, 'zone_infos.cpp')):
            m = re.match(r'^const \w+::ZoneInfo& (kZone\w+) = (kZone\w+);', ln)
            if m:
                links.append((m.group(1), m.group(2)))
        meta[db] = {'ids': ids, 'links': links}
        lines.append('static const uint32_t k_%s_ids[] = {%s};' % (db, ', '.join('%s::%s' % (ns, s) for s, _ in ids) or '0'))
        lines.append('static const %s::ZoneInfo* const k_%s_links[][2] = {%s};' % (
            zi, db, ', '.join('{&%s::%s, &%s::%s}' % (ns, a, ns, b) for a, b in links) or '{nullptr, nullptr}'))
        reg = '%s::kZoneRegistry' % ns
        lines.append('ENTRY(c11_%s_entry) { const %s::ZoneInfo* z = %s[a0]; __verif_observe_str("name", %s::ZoneInfoBroker(z).name()); '
                     '__verif_observe("id", %s::ZoneInfoBroker(z).zoneId()); __verif_observe("size", %s::kZoneRegistrySize); }' % (
                         db, zi, reg, zi, zi, ns))
        lines.append('ENTRY(c11_%s_const) { __verif_observe("id", k_%s_ids[a0]); }' % (db, db))
        lines.append('ENTRY(c11_%s_link) { __verif_observe("same", k_%s_links[a0][0] == k_%s_links[a0][1]); '
                     '__verif_observe_str("target", %s::ZoneInfoBroker(k_%s_links[a0][1]).name()); }' % (db, db, db, zi, db))
    with open(path, 'w') as f:
        f.write('\n'.join(lines) + '\n')
    return meta


def table(idx, vals, bits=None):
    e = z3.IntVal(-1)
    for k, v in enumerate(vals):
        e = z3.If(idx == k, z3.IntVal(v), e)
    return e


def main():
    a = common.parse_args(PROP)
    t0 = time.time()
    kc = common.KernelCheck(a, [])
    hpath = os.path.join(kc.wd, 'h_c11_gen.cpp')
    meta = gen_harness(hpath)
    kc.harnesses = [hpath]
    kc.with_zonedb = kc.with_zonedbx = True
    kc.build()
    mod = loader.Module(kc.bc)
    sys.path.insert(0, os.path.join(build.REPO, 'tools'))
    import pysym
    from pysym import SymInt
    import tzdb.transformer as tr
    stats = {'queries': 0, 'unsat': 0, 'sat': 0, 'unknown': 0, 'solver_time': 0.0}
    samples = []

    def query(tag, fs, model=None):
        t1 = time.time()
        s = z3.Solver()
        s.set('timeout', 120000)
        s.add(*fs)
        r = str(s.check())
        stats['solver_time'] += time.time() - t1
        stats['queries'] += 1
        stats[r] += 1
        if len(samples) < 5:
            samples.append({'obligation': tag, 'result': r})
        if r == 'sat':
            return r, s.model()
        if r != 'unsat':
            kc.inconclusive.append('%s: solver %s' % (tag, r))
        return r, None

    # ---- (1) hash_name ------------------------------------------------------------------------------------------
    class Ch(object):
        def __init__(self, code):
            self.code = code
    tr_ord = tr.__dict__.get('ord')
    tr.ord = lambda c: c.code
    try:
        for k in range(0, 9):
            cs = [z3.Int('c%d' % i) for i in range(k)]
            dom = [z3.And(c >= 0, c <= 0x10ffff) for c in cs]
            paths = pysym.explore(lambda: tr.hash_name([Ch(SymInt(c)) for c in cs]), assumptions=dom)
            spec = z3.IntVal(5381)
            fold = z3.BitVecVal(5381, 32)
            for c in cs:
                spec = (33 * spec + c) % (1 << 32)
                fold = fold * 33 + z3.Int2BV(c, 32)
            for p in paths:
                if p.exception is not None:
                    kc._record('hash_name:raises', 'hash_name raises %r on %d characters' % (p.exception, k), True, {})
                    continue
                got = p.result.t if isinstance(p.result, SymInt) else z3.IntVal(p.result)
                r, m = query('hash_name(len %d) == djb2 recurrence' % k, p.pc + [got != spec])
                if r == 'sat':
                    name = ''.join(chr(m.eval(c, model_completion=True).as_long()) for c in cs)
                    tr.__dict__.pop('ord', None)
                    real = tr.hash_name(name)
                    tr.ord = lambda c: c.code
                    kc._record('hash_name:differs', 'hash_name(%r) = %d, djb2 = %d' % (name, real, djb2(name)), real != djb2(name), {'name': name})
    finally:
        tr.__dict__.pop('ord', None)
        if tr_ord is not None:
            tr.ord = tr_ord
    # spec validation (not a claim about AceTime): the integer recurrence equals the classic 32-bit C fold
    import random
    rr = random.Random(a.seed)
    nval = 0
    for _ in range(20000):
        s_ = ''.join(chr(rr.randrange(32, 127)) for _ in range(rr.randrange(0, 40)))
        h32 = 5381
        for ch in s_.encode():
            h32 = (h32 * 33 + ch) & 0xffffffff
        assert h32 == djb2(s_)
        nval += 1
    # ---- (2) tables through the real accessors ---------------------------------------------------------------------------------
    tabs = {}
    steps = 0
    for db in ('zonedb', 'zonedbx'):
        eng = engine.Engine(mod, loop_limit=600)
        lv = eng.run('c11_%s_entry' % db, [0, 0, 0, 0])
        n = dict(lv[0].obs)['size']
        names, ids = [], []
        for i in range(n):
            eng = engine.Engine(mod, loop_limit=600)
            lv = eng.run('c11_%s_entry' % db, [i, 0, 0, 0])
            o = dict(lv[0].obs)
            names.append(o['name'].decode())
            ids.append(o['id'] & 0xffffffff)
            steps += lv[0].steps
        consts = []
        for i in range(len(meta[db]['ids'])):
            eng = engine.Engine(mod, loop_limit=600)
            lv = eng.run('c11_%s_const' % db, [i, 0, 0, 0])
            consts.append(dict(lv[0].obs)['id'] & 0xffffffff)
        links = []
        for i in range(len(meta[db]['links'])):
            eng = engine.Engine(mod, loop_limit=600)
            lv = eng.run('c11_%s_link' % db, [i, 0, 0, 0])
            if lv[0].status != 'ok':
                kc.inconclusive.append('%s link %d: %s' % (db, i, lv[0].defect))
                links.append((0, '?'))
                continue
            o = dict(lv[0].obs)
            links.append((o['same'], o['target'].decode()))
        tabs[db] = {'names': names, 'ids': ids, 'consts': consts, 'links': links}
    base = json.load(open(os.path.join(common.VERIF, 'baseline', 'zone_ids.json')))['ids']
    i, j = z3.Int('i'), z3.Int('j')
    for db in ('zonedb', 'zonedbx'):
        T = tabs[db]
        n = len(T['names'])
        ID = table(i, T['ids'])
        H = table(i, [tr.hash_name(x) for x in T['names']])          # the repository's own hash function
        HS = table(i, [djb2(x) for x in T['names']])                 # the djb2 specification
        rng = [i >= 0, i < n]
        r, m = query('%s: id == hash_name(name) == djb2(name) for every entry' % db, rng + [z3.Or(ID != H, ID != HS)])
        if r == 'sat':
            k = m.eval(i).as_long()
            kc._record('%s:id!=djb2:%s' % (db, T['names'][k]), '%s entry %d (%s): zoneId 0x%08x, djb2 0x%08x' % (
                db, k, T['names'][k], T['ids'][k], djb2(T['names'][k])), T['ids'][k] != djb2(T['names'][k]), {'index': k})
        r, m = query('%s: ids unique' % db, rng + [j >= 0, j < n, i < j, ID == table(j, T['ids'])])
        if r == 'sat':
            k1, k2 = m.eval(i).as_long(), m.eval(j).as_long()
            kc._record('%s:duplicate-id' % db, '%s: %s and %s share id 0x%08x' % (db, T['names'][k1], T['names'][k2], T['ids'][k1]),
                       T['ids'][k1] == T['ids'][k2], {})
        # ascending name order (byte-wise, as strcmp): rank of each name in the sorted list must equal its index
        rank = dict((nm, k) for k, nm in enumerate(sorted(T['names'], key=lambda s: s.encode())))
        r, m = query('%s: registry in ascending name order, every name once' % db,
                     rng + [table(i, [rank[x] for x in T['names']]) != i])
        if r == 'sat' or len(set(T['names'])) != n:
            k = m.eval(i).as_long() if m is not None else 0
            kc._record('%s:not-sorted' % db, '%s registry not in ascending order / duplicate at index %d (%s)' % (db, k, T['names'][k]),
                       True, {})
        # published constants
        cn = [nm for (_, nm) in meta[db]['ids']]
        cidx = dict((nm, k) for k, nm in enumerate(T['names']))
        missing = [nm for nm in cn if nm not in cidx] + [nm for nm in T['names'] if nm not in cn]
        if missing:
            kc._record('%s:constants-vs-registry' % db, '%s: names present on one side only: %s' % (db, missing[:5]), True, {})
        else:
            r, m = query('%s: kZoneId* constants equal the table ids' % db,
                         [i >= 0, i < len(cn), table(i, T['consts']) != table(i, [T['ids'][cidx[nm]] for nm in cn])])
            if r == 'sat':
                k = m.eval(i).as_long()
                kc._record('%s:constant!=table:%s' % (db, cn[k]), '%s: kZoneId for %s is 0x%08x, table has 0x%08x' % (
                    db, cn[k], T['consts'][k], T['ids'][cidx[cn[k]]]), True, {})
        # recorded baseline
        known = [nm for nm in T['names'] if nm in base]
        r, m = query('%s: ids equal the recorded baseline' % db,
                     [i >= 0, i < len(known), table(i, [T['ids'][cidx[nm]] for nm in known]) != table(i, [base[nm] for nm in known])])
        if r == 'sat':
            k = m.eval(i).as_long()
            kc._record('%s:baseline:%s' % (db, known[k]), '%s: id of %s changed from recorded 0x%08x to 0x%08x' % (
                db, known[k], base[known[k]], T['ids'][cidx[known[k]]]), True, {})
        # link aliases
        bad = [(a, b) for (a, b), (same, tgt) in zip(meta[db]['links'], T['links']) if not same]
        if bad:
            kc._record('%s:link-alias' % db, '%s: link symbols not aliasing their target: %s' % (db, bad[:3]), True, {})
    # basic vs extended
    bx = dict(zip(tabs['zonedbx']['names'], tabs['zonedbx']['ids']))
    shared = [nm for nm in tabs['zonedb']['names'] if nm in bx]
    bi = dict(zip(tabs['zonedb']['names'], tabs['zonedb']['ids']))
    r, m = query('basic and extended databases give the same id to every shared name',
                 [i >= 0, i < len(shared), table(i, [bi[nm] for nm in shared]) != table(i, [bx[nm] for nm in shared])])
    if r == 'sat':
        k = m.eval(i).as_long()
        kc._record('basic-vs-extended:%s' % shared[k], 'id of %s differs between zonedb and zonedbx' % shared[k], True, {})
    cov = {
        'states': sum(len(t['names']) for t in tabs.values()), 'transitions': max(1, steps), 'traces_validated_against_impl': 0,
        'samples': samples, 'evaluations': stats['queries'], 'distinct_nontrivial': stats['queries'],
        'rule': 'hash_name: one query per (string length k <= 8, pysym path); tables: one query per fact over a symbolic index into the '
                'tables read through the real C++ accessors (a finite table, so the query is a complete decision)',
        'queries_unsat': stats['unsat'], 'queries_sat': stats['sat'], 'queries_unknown': stats['unknown'],
        'solver_time_s': round(stats['solver_time'], 2),
        'tables': dict((db, {'entries': len(t['names']), 'constants': len(t['consts']), 'links': len(t['links'])}) for db, t in tabs.items()),
        'shared_names': len(shared), 'baseline_names': len(base),
        'functions_encoded': ['tzdb.transformer.hash_name (pysym)', 'ZoneInfoBroker::name/zoneId, kZoneRegistry, kZoneId*, link references (llsym)'],
        'bounds': {'hash_name': 'strings of 0..8 arbitrary code points symbolic; longer strings by the step lemma (same loop body)',
                   'tables': 'all entries, constants and links of zonedb and zonedbx'},
        'outside_bounds': ['tools/zonedbpy carries no zone ids in this revision (nothing to compare)',
                           'ids of freshly compiled sources are covered by C03/C20'],
    }
    kc.finish(cov, ['baseline /verif/baseline/zone_ids.json was recorded from the pinned commit',
                    'ord() inside tzdb.transformer is rebound to read the symbolic code point of a character proxy'])


if __name__ == '__main__':
    main()
