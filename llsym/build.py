"""Build /repo's C++ sources (current working tree) + a harness into LLVM bitcode
for llsym, and into native replay binaries."""
import os
import subprocess
import glob
import shutil
import tempfile
from concurrent.futures import ThreadPoolExecutor

VERIF = os.path.dirname(os.path.dirname(os.path.abspath(__file__)))
REPO = os.environ.get('VERIF_REPO', '/repo')
CLANG = 'clang++-14'
SAN = '-fsanitize=signed-integer-overflow,shift,integer-divide-by-zero,bounds,null,unreachable,return,vla-bound'
COMMON = ['-std=c++11', '-fno-exceptions', '-fno-rtti', '-DUNIX_HOST_DUINO', '-DACETIME_VERIF=1',
          '-I' + os.path.join(VERIF, 'shim'), '-I' + os.path.join(VERIF, 'harness')]
IR_FLAGS = ['-O1', '-fno-inline', '-fno-vectorize', '-fno-slp-vectorize', '-fno-unroll-loops', '-g1', SAN,
            '-fsanitize-trap=all', '-emit-llvm', '-c']


def workdir(tag):
    base = os.path.join(VERIF, '.work')
    os.makedirs(base, exist_ok=True)
    return tempfile.mkdtemp(prefix='%s-%d-' % (tag, os.getpid()), dir=base)


def lib_sources(src_root, with_zonedb=True, with_zonedbx=True):
    at = os.path.join(src_root, 'ace_time')
    srcs = sorted(glob.glob(os.path.join(at, '*.cpp')) + glob.glob(os.path.join(at, 'common', '*.cpp')))
    if with_zonedb:
        srcs += sorted(glob.glob(os.path.join(at, 'zonedb', '*.cpp')))
    if with_zonedbx:
        srcs += sorted(glob.glob(os.path.join(at, 'zonedbx', '*.cpp')))
    return srcs


def _run(cmd):
    p = subprocess.run(cmd, stdout=subprocess.PIPE, stderr=subprocess.STDOUT, text=True)
    if p.returncode != 0:
        raise RuntimeError('command failed: %s\n%s' % (' '.join(cmd), p.stdout))
    return p.stdout


def _objname(wd, src, ext):
    return os.path.join(wd, (os.path.basename(os.path.dirname(src)) + '_' + os.path.basename(src)).replace('.cpp', ext))


def build_ir(harnesses, wd, src_root=None, with_zonedb=True, with_zonedbx=True, extra_sources=(),
             extra_flags=(), out='all.bc'):
    """Compile harness files + library into one linked bitcode file; returns its path."""
    src_root = src_root or os.path.join(REPO, 'src')
    inc = ['-I' + src_root]
    jobs = []
    for s in lib_sources(src_root, with_zonedb, with_zonedbx) + list(extra_sources):
        jobs.append([CLANG] + COMMON + inc + IR_FLAGS + list(extra_flags) + [s, '-o', _objname(wd, s, '.bc')])
    for h in harnesses:
        jobs.append([CLANG] + COMMON + inc + IR_FLAGS + list(extra_flags) + [h, '-o', _objname(wd, h, '.h.bc')])
    libc = os.path.join(VERIF, 'harness', 'verif_libc.cpp')
    jobs.append([CLANG] + COMMON + inc + IR_FLAGS + ['-fno-builtin', libc, '-o', _objname(wd, libc, '.bc')])
    irrt = os.path.join(VERIF, 'harness', 'verif_ir_rt.cpp')
    jobs.append([CLANG] + COMMON + inc + IR_FLAGS + [irrt, '-o', _objname(wd, irrt, '.bc')])
    with ThreadPoolExecutor(16) as ex:
        list(ex.map(_run, jobs))
    outp = os.path.join(wd, out)
    _run(['llvm-link-14'] + [j[-1] for j in jobs] + ['-o', outp])
    for j in jobs:
        os.unlink(j[-1])
    return outp


def build_native(harnesses, wd, src_root=None, sanitize=False, with_zonedb=True, with_zonedbx=True,
                 extra_sources=(), out='replay'):
    src_root = src_root or os.path.join(REPO, 'src')
    inc = ['-I' + src_root]
    fl = ['-O1', '-g1']
    if sanitize:
        fl += ['-fsanitize=address,undefined', '-fno-sanitize-recover=all', '-fno-omit-frame-pointer']
    tag = '.san.o' if sanitize else '.o'
    jobs = []
    rt = os.path.join(VERIF, 'harness', 'verif_rt.cpp')
    for s in lib_sources(src_root, with_zonedb, with_zonedbx) + list(extra_sources) + list(harnesses) + [rt]:
        jobs.append([CLANG] + COMMON + inc + fl + ['-c', s, '-o', _objname(wd, s, tag)])
    with ThreadPoolExecutor(16) as ex:
        list(ex.map(_run, jobs))
    outp = os.path.join(wd, out + ('.san' if sanitize else ''))
    _run([CLANG] + fl + [j[-1] for j in jobs] + ['-rdynamic', '-ldl', '-o', outp])
    for j in jobs:
        os.unlink(j[-1])
    return outp


def run_native(binary, entry, args, nondet, timeout=20, params=None):
    """Returns (returncode or 'timeout', stdout lines, stderr text)."""
    a = list(args) + [0] * (4 - len(args))
    cmd = [binary, entry] + [str(x) for x in a] + [str(x) for x in nondet]
    env = dict(os.environ, ASAN_OPTIONS='detect_leaks=0:abort_on_error=0', UBSAN_OPTIONS='print_stacktrace=1')
    if params is not None:
        env['VERIF_PARAMS'] = ','.join(str(p) for p in params)
    try:
        p = subprocess.run(cmd, stdout=subprocess.PIPE, stderr=subprocess.PIPE, text=True, timeout=timeout, env=env)
    except subprocess.TimeoutExpired as e:
        return 'timeout', (e.stdout or b'').decode().splitlines() if isinstance(e.stdout, bytes) else [], ''
    return p.returncode, p.stdout.splitlines(), p.stderr


def cleanup(wd):
    shutil.rmtree(wd, ignore_errors=True)
