"""Load LLVM bitcode through the LLVM-C API (ctypes) and lower it to plain
Python tuples for the symbolic executor in engine.py.

Anything this lowering does not know (opcode, constant kind, intrinsic, type)
raises Unsupported -- it is never skipped.
"""
import ctypes
from ctypes import c_void_p, c_char_p, c_uint, c_int, c_ulonglong, c_size_t, POINTER, byref

LIB = '/usr/lib/llvm-14/lib/libLLVM-14.so'
L = ctypes.CDLL(LIB)


class Unsupported(Exception):
    pass


def _f(name, res, *args):
    fn = getattr(L, name)
    fn.restype = res
    fn.argtypes = list(args)
    return fn


V = c_void_p
_f('LLVMCreateMemoryBufferWithContentsOfFile', c_int, c_char_p, POINTER(V), POINTER(c_char_p))
_f('LLVMParseBitcode2', c_int, V, POINTER(V))
_f('LLVMGetModuleDataLayout', V, V)
_f('LLVMGetFirstFunction', V, V)
_f('LLVMGetNextFunction', V, V)
_f('LLVMGetFirstGlobal', V, V)
_f('LLVMGetNextGlobal', V, V)
_f('LLVMGetValueName2', c_void_p, V, POINTER(c_size_t))
_f('LLVMCountBasicBlocks', c_uint, V)
_f('LLVMGetFirstBasicBlock', V, V)
_f('LLVMGetNextBasicBlock', V, V)
_f('LLVMGetFirstInstruction', V, V)
_f('LLVMGetNextInstruction', V, V)
_f('LLVMGetInstructionOpcode', c_int, V)
_f('LLVMGetNumOperands', c_int, V)
_f('LLVMGetOperand', V, V, c_uint)
_f('LLVMTypeOf', V, V)
_f('LLVMGetTypeKind', c_int, V)
_f('LLVMGetIntTypeWidth', c_uint, V)
_f('LLVMGetValueKind', c_int, V)
_f('LLVMConstIntGetZExtValue', c_ulonglong, V)
_f('LLVMGetConstOpcode', c_int, V)
_f('LLVMGetICmpPredicate', c_int, V)
_f('LLVMCountParams', c_uint, V)
_f('LLVMGetParam', V, V, c_uint)
_f('LLVMGetInitializer', V, V)
_f('LLVMIsGlobalConstant', c_int, V)
_f('LLVMIsDeclaration', c_int, V)
_f('LLVMGlobalGetValueType', V, V)
_f('LLVMABISizeOfType', c_ulonglong, V, V)
_f('LLVMStoreSizeOfType', c_ulonglong, V, V)
_f('LLVMOffsetOfElement', c_ulonglong, V, V, c_uint)
_f('LLVMCountStructElementTypes', c_uint, V)
_f('LLVMStructGetTypeAtIndex', V, V, c_uint)
_f('LLVMGetElementType', V, V)
_f('LLVMGetArrayLength', c_uint, V)
_f('LLVMGetGEPSourceElementType', V, V)
_f('LLVMGetAllocatedType', V, V)
_f('LLVMGetCalledValue', V, V)
_f('LLVMGetNumArgOperands', c_uint, V)
_f('LLVMCountIncoming', c_uint, V)
_f('LLVMGetIncomingValue', V, V, c_uint)
_f('LLVMGetIncomingBlock', V, V, c_uint)
_f('LLVMIsConditional', c_int, V)
_f('LLVMGetCondition', V, V)
_f('LLVMGetNumSuccessors', c_uint, V)
_f('LLVMGetSuccessor', V, V, c_uint)
_f('LLVMValueAsBasicBlock', V, V)
_f('LLVMBasicBlockAsValue', V, V)
_f('LLVMGetNumIndices', c_uint, V)
_f('LLVMGetIndices', POINTER(c_uint), V)
_f('LLVMGetElementAsConstant', V, V, c_uint)
_f('LLVMGetDebugLocLine', c_uint, V)
_f('LLVMGetDebugLocFilename', c_void_p, V, POINTER(c_uint))
_f('LLVMGetSwitchDefaultDest', V, V)
_f('LLVMGetReturnType', V, V)
_f('LLVMIsAConstantInt', V, V)
_f('LLVMGetBasicBlockName', c_char_p, V)
_f('LLVMPrintValueToString', c_void_p, V)
_f('LLVMPrintTypeToString', c_void_p, V)
_f('LLVMDisposeMessage', None, c_void_p)
_f('LLVMGetAsString', c_void_p, V, POINTER(c_size_t))
_f('LLVMIsConstantString', c_int, V)
_f('LLVMGetFirstGlobalAlias', V, V)
_f('LLVMGetNextGlobalAlias', V, V)
_f('LLVMAliasGetAliasee', V, V)

# LLVMOpcode
(OP_RET, OP_BR, OP_SWITCH, OP_INDIRECTBR, OP_INVOKE, _x, OP_UNREACHABLE) = (1, 2, 3, 4, 5, 6, 7)
OP_CALLBR = 67
OP_FNEG = 66
(OP_ADD, OP_FADD, OP_SUB, OP_FSUB, OP_MUL, OP_FMUL, OP_UDIV, OP_SDIV, OP_FDIV, OP_UREM, OP_SREM,
 OP_FREM) = range(8, 20)
(OP_SHL, OP_LSHR, OP_ASHR, OP_AND, OP_OR, OP_XOR) = range(20, 26)
(OP_ALLOCA, OP_LOAD, OP_STORE, OP_GEP) = range(26, 30)
(OP_TRUNC, OP_ZEXT, OP_SEXT, OP_FPTOUI, OP_FPTOSI, OP_UITOFP, OP_SITOFP, OP_FPTRUNC, OP_FPEXT,
 OP_PTRTOINT, OP_INTTOPTR, OP_BITCAST) = range(30, 42)
OP_ICMP, OP_FCMP, OP_PHI, OP_CALL, OP_SELECT = 42, 43, 44, 45, 46
OP_EXTRACTVALUE, OP_INSERTVALUE = 53, 54
OP_ADDRSPACECAST = 60
OP_FREEZE = 68

# LLVMTypeKind
(TK_VOID, TK_HALF, TK_FLOAT, TK_DOUBLE, TK_X86FP80, TK_FP128, TK_PPCFP128, TK_LABEL, TK_INTEGER,
 TK_FUNCTION, TK_STRUCT, TK_ARRAY, TK_POINTER, TK_VECTOR, TK_METADATA) = range(15)

# LLVMValueKind
(VK_ARGUMENT, VK_BASICBLOCK, VK_MEMORYUSE, VK_MEMORYDEF, VK_MEMORYPHI, VK_FUNCTION, VK_GLOBALALIAS,
 VK_GLOBALIFUNC, VK_GLOBALVARIABLE, VK_BLOCKADDRESS, VK_CONSTANTEXPR, VK_CONSTANTARRAY,
 VK_CONSTANTSTRUCT, VK_CONSTANTVECTOR, VK_UNDEF, VK_CONSTANTAGGREGATEZERO, VK_CONSTANTDATAARRAY,
 VK_CONSTANTDATAVECTOR, VK_CONSTANTINT, VK_CONSTANTFP, VK_CONSTANTPOINTERNULL, VK_CONSTANTTOKENNONE,
 VK_METADATAASVALUE, VK_INLINEASM, VK_INSTRUCTION, VK_POISON) = range(26)

# icmp predicates
(P_EQ, P_NE, P_UGT, P_UGE, P_ULT, P_ULE, P_SGT, P_SGE, P_SLT, P_SLE) = range(32, 42)


class Ptr(object):
    """A pointer value: object id (0 = null) and byte offset (int or z3 BV64)."""
    __slots__ = ('obj', 'off')

    def __init__(self, obj, off):
        self.obj = obj
        self.off = off

    def __repr__(self):
        return 'Ptr(%r,%r)' % (self.obj, self.off)


class Undef(object):
    __slots__ = ()

    def __repr__(self):
        return 'UNDEF'


UNDEF = Undef()
NULL = Ptr(0, 0)

# lowered instruction opcodes (small ints, ordered roughly by frequency)
(I_GEP, I_LOAD, I_ICMP, I_CBR, I_BR, I_CALL, I_ADD, I_STORE, I_ZEXT, I_MOV, I_SELECT, I_RET, I_MUL,
 I_OR, I_EXTRACT, I_SEXT, I_SHL, I_TRUNC, I_ALLOCA, I_AND, I_UDIV, I_SDIV, I_UREM, I_SUB, I_SREM,
 I_PTRTOINT, I_SWITCH, I_ASHR, I_LSHR, I_XOR, I_INTTOPTR, I_INSERT, I_UNREACHABLE, I_FREEZE) = range(34)

BINOPS = {OP_ADD: I_ADD, OP_SUB: I_SUB, OP_MUL: I_MUL, OP_UDIV: I_UDIV, OP_SDIV: I_SDIV,
          OP_UREM: I_UREM, OP_SREM: I_SREM, OP_SHL: I_SHL, OP_LSHR: I_LSHR, OP_ASHR: I_ASHR,
          OP_AND: I_AND, OP_OR: I_OR, OP_XOR: I_XOR}


def _name(v):
    n = c_size_t()
    p = L.LLVMGetValueName2(v, byref(n))
    return ctypes.string_at(p, n.value).decode('latin1')


def _pv(v):
    p = L.LLVMPrintValueToString(v)
    s = ctypes.string_at(p).decode('latin1')
    L.LLVMDisposeMessage(p)
    return s


def _pt(t):
    p = L.LLVMPrintTypeToString(t)
    s = ctypes.string_at(p).decode('latin1')
    L.LLVMDisposeMessage(p)
    return s


class Function(object):
    __slots__ = ('name', 'nparams', 'blocks', 'phis', 'nregs', 'init_regs', 'is_decl', 'fid',
                 'lines', 'file', 'ret_void', 'block_names', 'param_kinds')


class Global(object):
    __slots__ = ('name', 'gid', 'size', 'const', 'init_ref', 'type_ref', 'cells', 'is_decl')


class Module(object):
    def __init__(self, path):
        buf = V()
        msg = c_char_p()
        if L.LLVMCreateMemoryBufferWithContentsOfFile(path.encode(), byref(buf), byref(msg)):
            raise IOError(msg.value)
        mod = V()
        if L.LLVMParseBitcode2(buf, byref(mod)):
            raise IOError('cannot parse bitcode ' + path)
        self.mod = mod
        self.td = L.LLVMGetModuleDataLayout(mod)
        self.functions = {}
        self.globals = {}
        self.obj_by_id = {}      # id -> Function | Global
        self._refid = {}         # value ref -> id
        self._next_id = 1
        self._lower_all()

    # ---- types -----------------------------------------------------
    def size_of(self, ty):
        return L.LLVMABISizeOfType(self.td, ty)

    def store_size(self, ty):
        return L.LLVMStoreSizeOfType(self.td, ty)

    def kind_of(self, ty):
        """('i', bits) | ('p',) | ('agg',) | ('v',)"""
        k = L.LLVMGetTypeKind(ty)
        if k == TK_INTEGER:
            return ('i', L.LLVMGetIntTypeWidth(ty))
        if k == TK_POINTER:
            return ('p',)
        if k in (TK_STRUCT, TK_ARRAY):
            return ('agg',)
        if k == TK_VOID:
            return ('v',)
        raise Unsupported('type ' + _pt(ty))

    # ---- module walk ----------------------------------------------
    def _lower_all(self):
        g = L.LLVMGetFirstGlobal(self.mod)
        while g:
            G = Global()
            G.name = _name(g)
            G.gid = self._next_id
            self._next_id += 1
            G.type_ref = L.LLVMGlobalGetValueType(g)
            G.is_decl = bool(L.LLVMIsDeclaration(g))
            G.size = 0 if G.is_decl and L.LLVMGetTypeKind(G.type_ref) == TK_FUNCTION else self.size_of(G.type_ref)
            G.const = bool(L.LLVMIsGlobalConstant(g))
            G.init_ref = None if G.is_decl else L.LLVMGetInitializer(g)
            G.cells = None
            self.globals[G.name] = G
            self.obj_by_id[G.gid] = G
            self._refid[g] = G.gid
            g = L.LLVMGetNextGlobal(g)
        f = L.LLVMGetFirstFunction(self.mod)
        frefs = []
        while f:
            F = Function()
            F.name = _name(f)
            F.fid = self._next_id
            self._next_id += 1
            F.is_decl = bool(L.LLVMIsDeclaration(f))
            F.nparams = L.LLVMCountParams(f)
            F.blocks = None
            self.functions[F.name] = F
            self.obj_by_id[F.fid] = F
            self._refid[f] = F.fid
            frefs.append((f, F))
            f = L.LLVMGetNextFunction(f)
        a = L.LLVMGetFirstGlobalAlias(self.mod)
        while a:
            tgt = L.LLVMAliasGetAliasee(a)
            self._refid[a] = self._const_ptr_target(tgt)
            a = L.LLVMGetNextGlobalAlias(a)
        self._frefs = dict((F.name, f) for f, F in frefs)
        # static constructors (llvm.global_ctors): names in priority order
        self.global_ctors = []
        gc = self.globals.get('llvm.global_ctors')
        if gc is not None and gc.init_ref is not None:
            try:
                arr = self.const(gc.init_ref)
                ent = []
                for e in arr:
                    prio, fn = e[0], e[1]
                    if isinstance(fn, Ptr) and fn.obj in self.obj_by_id:
                        ent.append((prio, self.obj_by_id[fn.obj].name))
                self.global_ctors = [n for _, n in sorted(ent, key=lambda x: x[0])]
            except Unsupported:
                self.global_ctors = []

    def _const_ptr_target(self, v):
        if v in self._refid:
            return self._refid[v]
        raise Unsupported('alias target ' + _pv(v))

    def function(self, name):
        F = self.functions[name]
        if F.blocks is None and not F.is_decl:
            self._lower_function(self._frefs[name], F)
        return F

    # ---- constants -------------------------------------------------
    def const(self, v):
        """Lower a constant to a Python value (int / Ptr / tuple / UNDEF)."""
        k = L.LLVMGetValueKind(v)
        ty = L.LLVMTypeOf(v)
        if k == VK_CONSTANTINT:
            bits = L.LLVMGetIntTypeWidth(ty)
            if bits > 64:
                raise Unsupported('wide constant ' + _pv(v))
            return L.LLVMConstIntGetZExtValue(v) & ((1 << bits) - 1)
        if k == VK_CONSTANTPOINTERNULL:
            return NULL
        if k in (VK_GLOBALVARIABLE, VK_FUNCTION, VK_GLOBALALIAS):
            return Ptr(self._refid[v], 0)
        if k in (VK_UNDEF, VK_POISON):
            return self._undef_of(ty)
        if k == VK_CONSTANTAGGREGATEZERO:
            return self._zero_of(ty)
        if k in (VK_CONSTANTSTRUCT, VK_CONSTANTARRAY, VK_CONSTANTDATAARRAY):
            n = self._agg_len(ty)
            return tuple(self.const(self._agg_elem(v, k, i)) for i in range(n))
        if k == VK_CONSTANTEXPR:
            return self._constexpr(v)
        raise Unsupported('constant kind %d: %s' % (k, _pv(v)[:200]))

    @staticmethod
    def _agg_elem(v, k, i):
        if k == VK_CONSTANTDATAARRAY:
            return L.LLVMGetElementAsConstant(v, i)
        return L.LLVMGetOperand(v, i)

    def _agg_len(self, ty):
        tk = L.LLVMGetTypeKind(ty)
        if tk == TK_STRUCT:
            return L.LLVMCountStructElementTypes(ty)
        if tk == TK_ARRAY:
            return L.LLVMGetArrayLength(ty)
        raise Unsupported('aggregate type ' + _pt(ty))

    def _agg_elem_ty(self, ty, i):
        tk = L.LLVMGetTypeKind(ty)
        if tk == TK_STRUCT:
            return L.LLVMStructGetTypeAtIndex(ty, i)
        return L.LLVMGetElementType(ty)

    def _undef_of(self, ty):
        tk = L.LLVMGetTypeKind(ty)
        if tk in (TK_STRUCT, TK_ARRAY):
            return tuple(self._undef_of(self._agg_elem_ty(ty, i)) for i in range(self._agg_len(ty)))
        return UNDEF

    def _zero_of(self, ty):
        tk = L.LLVMGetTypeKind(ty)
        if tk in (TK_STRUCT, TK_ARRAY):
            return tuple(self._zero_of(self._agg_elem_ty(ty, i)) for i in range(self._agg_len(ty)))
        if tk == TK_INTEGER:
            return 0
        if tk == TK_POINTER:
            return NULL
        raise Unsupported('zero of ' + _pt(ty))

    def _constexpr(self, v):
        op = L.LLVMGetConstOpcode(v)
        if op in (OP_BITCAST, OP_ADDRSPACECAST):
            return self.const(L.LLVMGetOperand(v, 0))
        if op == OP_GEP:
            base = self.const(L.LLVMGetOperand(v, 0))
            off = self._gep_const_offset(v)
            return Ptr(base.obj, base.off + off)
        if op == OP_PTRTOINT:
            p = self.const(L.LLVMGetOperand(v, 0))
            return (p.obj << 32) + p.off
        if op == OP_INTTOPTR:
            a = self.const(L.LLVMGetOperand(v, 0))
            return Ptr(a >> 32, a & 0xffffffff)
        raise Unsupported('constant expression: ' + _pv(v)[:200])

    def _gep_const_offset(self, v):
        n = L.LLVMGetNumOperands(v)
        ty = L.LLVMGetGEPSourceElementType(v)
        off = 0
        for i in range(1, n):
            idxv = L.LLVMGetOperand(v, i)
            idx = self.const(idxv)
            bits = L.LLVMGetIntTypeWidth(L.LLVMTypeOf(idxv))
            if idx >= 1 << (bits - 1):
                idx -= 1 << bits
            if i == 1:
                off += idx * self.size_of(ty)
            else:
                tk = L.LLVMGetTypeKind(ty)
                if tk == TK_STRUCT:
                    off += L.LLVMOffsetOfElement(self.td, ty, idx)
                    ty = L.LLVMStructGetTypeAtIndex(ty, idx)
                elif tk == TK_ARRAY:
                    ty = L.LLVMGetElementType(ty)
                    off += idx * self.size_of(ty)
                else:
                    raise Unsupported('gep into ' + _pt(ty))
        return off

    # ---- global initialisers -> byte cells --------------------------
    def global_cells(self, G):
        """Byte cells of a global's initialiser: ints, or ('f', Ptr, k, 8) fragments."""
        if G.cells is None:
            cells = [0] * G.size
            if G.init_ref is None:
                raise Unsupported('external global ' + G.name)
            self._emit(G.init_ref, cells, 0)
            G.cells = cells
        return G.cells

    def _emit(self, v, cells, at):
        k = L.LLVMGetValueKind(v)
        ty = L.LLVMTypeOf(v)
        tk = L.LLVMGetTypeKind(ty)
        if k == VK_CONSTANTAGGREGATEZERO:
            return
        if k in (VK_UNDEF, VK_POISON):
            for i in range(self.store_size(ty)):
                cells[at + i] = None
            return
        if k == VK_CONSTANTDATAARRAY and L.LLVMGetIntTypeWidth(L.LLVMGetElementType(ty)) == 8:
            n = c_size_t()
            p = L.LLVMGetAsString(v, byref(n))
            cells[at:at + n.value] = list(ctypes.string_at(p, n.value))
            return
        if tk == TK_STRUCT:
            for i in range(L.LLVMCountStructElementTypes(ty)):
                self._emit(self._agg_elem(v, k, i), cells, at + L.LLVMOffsetOfElement(self.td, ty, i))
            return
        if tk == TK_ARRAY:
            es = self.size_of(L.LLVMGetElementType(ty))
            for i in range(L.LLVMGetArrayLength(ty)):
                self._emit(self._agg_elem(v, k, i), cells, at + i * es)
            return
        val = self.const(v)
        if tk == TK_INTEGER:
            nb = self.store_size(ty)
            for i in range(nb):
                cells[at + i] = (val >> (8 * i)) & 0xff
            return
        if tk == TK_POINTER:
            if val.obj == 0 and val.off == 0:
                return
            for i in range(8):
                cells[at + i] = ('f', val, i, 8)
            return
        raise Unsupported('initialiser of type ' + _pt(ty))

    # ---- functions ---------------------------------------------------
    def _lower_function(self, f, F):
        slots = {}
        consts = []

        def slot_of(v):
            if v in slots:
                return slots[v]
            k = L.LLVMGetValueKind(v)
            if k in (VK_INSTRUCTION, VK_ARGUMENT):
                raise Unsupported('use before def in ' + F.name + ': ' + _pv(v))
            if k == VK_BASICBLOCK or k == VK_METADATAASVALUE or k == VK_INLINEASM:
                raise Unsupported('operand kind %d in %s' % (k, F.name))
            s = len(slots)
            slots[v] = s
            consts.append((s, self.const(v)))
            return s

        for i in range(F.nparams):
            slots[L.LLVMGetParam(f, i)] = i
        F.param_kinds = [self.kind_of(L.LLVMTypeOf(L.LLVMGetParam(f, i))) for i in range(F.nparams)]
        # first pass: slots for all instruction results, block indices
        blocks = []
        bidx = {}
        b = L.LLVMGetFirstBasicBlock(f)
        while b:
            bidx[b] = len(blocks)
            ins = []
            i = L.LLVMGetFirstInstruction(b)
            while i:
                ins.append(i)
                if L.LLVMGetTypeKind(L.LLVMTypeOf(i)) != TK_VOID:
                    slots[i] = len(slots)
                i = L.LLVMGetNextInstruction(i)
            blocks.append((b, ins))
            b = L.LLVMGetNextBasicBlock(b)
        F.block_names = [(L.LLVMGetBasicBlockName(b) or b'').decode() for b, _ in blocks]
        out_blocks = []
        out_phis = []
        lines = []
        fname = None
        for b, ins in blocks:
            code = []
            phis = []
            for i in ins:
                op = L.LLVMGetInstructionOpcode(i)
                line = L.LLVMGetDebugLocLine(i)
                if line:
                    lines.append(line)
                    if fname is None:
                        n = c_uint()
                        p = L.LLVMGetDebugLocFilename(i, byref(n))
                        if p:
                            fname = ctypes.string_at(p, n.value).decode('latin1')
                if op == OP_PHI:
                    inc = {}
                    for k in range(L.LLVMCountIncoming(i)):
                        inc[bidx[L.LLVMGetIncomingBlock(i, k)]] = slot_of(L.LLVMGetIncomingValue(i, k))
                    phis.append((slots[i], inc))
                    continue
                t = self._lower_instr(i, op, slots, slot_of, bidx, F, line)
                if t is not None:
                    code.append(t)
            out_blocks.append(code)
            out_phis.append(phis)
        F.blocks = out_blocks
        F.phis = out_phis
        F.nregs = len(slots)
        init = [None] * F.nregs
        for s, c in consts:
            init[s] = c
        F.init_regs = init
        F.lines = (min(lines), max(lines)) if lines else (0, 0)
        F.file = fname
        F.ret_void = L.LLVMGetTypeKind(L.LLVMGetReturnType(L.LLVMGlobalGetValueType(f))) == TK_VOID

    def _lower_instr(self, i, op, slots, S, bidx, F, line):
        O = lambda k: L.LLVMGetOperand(i, k)
        ty = L.LLVMTypeOf(i)
        if op in BINOPS:
            bits = L.LLVMGetIntTypeWidth(ty)
            return (BINOPS[op], slots[i], S(O(0)), S(O(1)), bits)
        if op == OP_ICMP:
            oty = L.LLVMTypeOf(O(0))
            kd = self.kind_of(oty)
            bits = kd[1] if kd[0] == 'i' else 0
            return (I_ICMP, slots[i], L.LLVMGetICmpPredicate(i), S(O(0)), S(O(1)), bits)
        if op in (OP_ZEXT, OP_SEXT, OP_TRUNC):
            fb = L.LLVMGetIntTypeWidth(L.LLVMTypeOf(O(0)))
            tb = L.LLVMGetIntTypeWidth(ty)
            return ({OP_ZEXT: I_ZEXT, OP_SEXT: I_SEXT, OP_TRUNC: I_TRUNC}[op], slots[i], S(O(0)), fb, tb)
        if op == OP_BITCAST or op == OP_ADDRSPACECAST:
            k1 = self.kind_of(L.LLVMTypeOf(O(0)))
            k2 = self.kind_of(ty)
            if k1 != k2 and not (k1[0] == 'p' and k2[0] == 'p'):
                raise Unsupported('bitcast ' + _pv(i))
            return (I_MOV, slots[i], S(O(0)))
        if op == OP_FREEZE:
            return (I_FREEZE, slots[i], S(O(0)))
        if op == OP_PTRTOINT:
            return (I_PTRTOINT, slots[i], S(O(0)), L.LLVMGetIntTypeWidth(ty))
        if op == OP_INTTOPTR:
            return (I_INTTOPTR, slots[i], S(O(0)), L.LLVMGetIntTypeWidth(L.LLVMTypeOf(O(0))))
        if op == OP_GEP:
            n = L.LLVMGetNumOperands(i)
            cur = L.LLVMGetGEPSourceElementType(i)
            coff = 0
            dyn = []
            for k in range(1, n):
                idxv = O(k)
                isconst = bool(L.LLVMIsAConstantInt(idxv))
                ibits = L.LLVMGetIntTypeWidth(L.LLVMTypeOf(idxv))
                if isconst:
                    idx = L.LLVMConstIntGetZExtValue(idxv) & ((1 << ibits) - 1)
                    if idx >= 1 << (ibits - 1):
                        idx -= 1 << ibits
                if k == 1:
                    stride = self.size_of(cur)
                else:
                    tk = L.LLVMGetTypeKind(cur)
                    if tk == TK_STRUCT:
                        if not isconst:
                            raise Unsupported('dynamic struct index')
                        coff += L.LLVMOffsetOfElement(self.td, cur, idx)
                        cur = L.LLVMStructGetTypeAtIndex(cur, idx)
                        continue
                    elif tk == TK_ARRAY:
                        cur = L.LLVMGetElementType(cur)
                        stride = self.size_of(cur)
                    else:
                        raise Unsupported('gep into ' + _pt(cur))
                if isconst:
                    coff += idx * stride
                else:
                    dyn.append((S(idxv), stride, ibits))
            return (I_GEP, slots[i], S(O(0)), coff, tuple(dyn))
        if op == OP_LOAD:
            kd = self.kind_of(ty)
            if kd[0] == 'agg':
                raise Unsupported('aggregate load in ' + F.name)
            return (I_LOAD, slots[i], S(O(0)), kd[0], self.store_size(ty), kd[1] if kd[0] == 'i' else 64, line)
        if op == OP_STORE:
            vty = L.LLVMTypeOf(O(0))
            kd = self.kind_of(vty)
            if kd[0] == 'agg':
                raise Unsupported('aggregate store in ' + F.name)
            return (I_STORE, S(O(0)), S(O(1)), kd[0], self.store_size(vty), kd[1] if kd[0] == 'i' else 64, line)
        if op == OP_ALLOCA:
            aty = L.LLVMGetAllocatedType(i)
            cnt = O(0)
            if not L.LLVMIsAConstantInt(cnt):
                raise Unsupported('dynamic alloca in ' + F.name)
            return (I_ALLOCA, slots[i], self.size_of(aty) * L.LLVMConstIntGetZExtValue(cnt))
        if op == OP_SELECT:
            kd = self.kind_of(ty)
            return (I_SELECT, slots[i], S(O(0)), S(O(1)), S(O(2)), kd[0], kd[1] if kd[0] == 'i' else 64)
        if op == OP_EXTRACTVALUE:
            n = L.LLVMGetNumIndices(i)
            p = L.LLVMGetIndices(i)
            return (I_EXTRACT, slots[i], S(O(0)), tuple(p[k] for k in range(n)))
        if op == OP_INSERTVALUE:
            n = L.LLVMGetNumIndices(i)
            p = L.LLVMGetIndices(i)
            return (I_INSERT, slots[i], S(O(0)), S(O(1)), tuple(p[k] for k in range(n)))
        if op == OP_BR:
            if L.LLVMIsConditional(i):
                return (I_CBR, S(L.LLVMGetCondition(i)), bidx[L.LLVMGetSuccessor(i, 0)],
                        bidx[L.LLVMGetSuccessor(i, 1)], line)
            return (I_BR, bidx[L.LLVMGetSuccessor(i, 0)])
        if op == OP_SWITCH:
            n = L.LLVMGetNumOperands(i)
            bits = L.LLVMGetIntTypeWidth(L.LLVMTypeOf(O(0)))
            cases = []
            for k in range(2, n, 2):
                cv = L.LLVMConstIntGetZExtValue(O(k)) & ((1 << bits) - 1)
                cases.append((cv, bidx[L.LLVMValueAsBasicBlock(O(k + 1))]))
            return (I_SWITCH, S(O(0)), bidx[L.LLVMGetSwitchDefaultDest(i)], tuple(cases), bits, line)
        if op == OP_RET:
            if L.LLVMGetNumOperands(i) == 0:
                return (I_RET, -1)
            return (I_RET, S(O(0)))
        if op == OP_UNREACHABLE:
            return (I_UNREACHABLE, line)
        if op == OP_CALL:
            callee = L.LLVMGetCalledValue(i)
            nargs = L.LLVMGetNumArgOperands(i)
            ck = L.LLVMGetValueKind(callee)
            dst = slots.get(i, -1)
            if ck == VK_FUNCTION:
                nm = _name(callee)
                if nm.startswith('llvm.dbg.') or nm.startswith('llvm.lifetime.') or \
                        nm.startswith('llvm.experimental.noalias') or nm == 'llvm.assume' or \
                        nm.startswith('llvm.invariant.'):
                    return None
                return (I_CALL, dst, nm, tuple(S(O(k)) for k in range(nargs)), line)
            if ck == VK_INLINEASM:
                raise Unsupported('inline asm in ' + F.name)
            return (I_CALL, dst, S(callee), tuple(S(O(k)) for k in range(nargs)), line)
        raise Unsupported('opcode %d in %s: %s' % (op, F.name, _pv(i)))
