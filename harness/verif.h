// Harness interface shared by the symbolic engine (llsym) and the native
// replay runtime (verif_rt.cpp).
#ifndef VERIF_H
#define VERIF_H
#include <stdint.h>
#include <stddef.h>
extern "C" {
int8_t   __verif_nondet_i8(const char* name);
uint8_t  __verif_nondet_u8(const char* name);
int16_t  __verif_nondet_i16(const char* name);
uint16_t __verif_nondet_u16(const char* name);
int32_t  __verif_nondet_i32(const char* name);
uint32_t __verif_nondet_u32(const char* name);
int64_t  __verif_nondet_i64(const char* name);
uint64_t __verif_nondet_u64(const char* name);
void __verif_assume(bool cond);
void __verif_assert(bool cond, const char* id);
void __verif_observe(const char* tag, int64_t value);
void __verif_observe_str(const char* tag, const char* s);
void __verif_observe_bytes(const char* tag, const void* p, size_t n);
int64_t __verif_concretize(int64_t v);
void __verif_reach(const char* tag);
// i-th concrete driver parameter (item['params'] / env VERIF_PARAMS="1,2,3" natively)
long __verif_param(int i);
}
// every entry point has this signature; arguments are concrete parameters
// chosen by the Python driver (chunk bounds, zone index, year ...)
#define ENTRY(name) extern "C" void name(long a0, long a1, long a2, long a3)
#endif
