#!/usr/bin/env python3
"""C02 — basic zones match the TZ rules and agree with the extended processor on every shared zone.\n\nSame machinery as C01 plus a relational obligation per (zone, year, basic leaf, extended leaf) and a watch on\nBasicZoneProcessor::addTransition (no transition is ever dropped from the 5-entry cache)."""
import sys
import os
sys.path.insert(0, os.path.dirname(os.path.abspath(__file__)))
import zones  # noqa: E402

if __name__ == '__main__':
    zones.zone_main('C02', 'bas')
