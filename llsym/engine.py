"""llsym: a small symbolic executor for LLVM IR lowered by loader.py.

Values: Python int (concrete, unsigned canonical), z3 BitVecRef (symbolic iN),
z3 BoolRef (symbolic i1), loader.Ptr, tuple (aggregate), loader.UNDEF.
Memory: byte-addressed objects, bounds-checked, copy-on-write across forks.
Forking: any instruction may raise _Fork; the engine clones the state *before*
the instruction and re-executes it in each clone with the decision recorded.
"""
import time
import z3
from .loader import *  # noqa: F401,F403  (opcode constants, Ptr, UNDEF, NULL)
from . import loader as _ld

BitVecVal = z3.BitVecVal
is_true = z3.is_true
is_false = z3.is_false


class EngineError(Exception):
    """The engine cannot continue soundly (unsupported feature, undef use...)."""


class Defect(Exception):
    def __init__(self, kind, msg, line=0):
        Exception.__init__(self, '%s: %s' % (kind, msg))
        self.kind = kind
        self.msg = msg
        self.line = line


class _Fork(Exception):
    """alternatives: list of (constraint or None, key, value)."""

    def __init__(self, alts, keep=None):
        Exception.__init__(self)
        self.alts = alts
        self.keep = keep     # z3 ASTs whose ids are used as decision keys must stay alive


class _PathEnd(Exception):
    pass


class Obj(object):
    __slots__ = ('cells', 'name', 'kind')

    def __init__(self, cells, name, kind):
        self.cells = cells
        self.name = name
        self.kind = kind


class Frame(object):
    __slots__ = ('F', 'regs', 'bi', 'ip', 'dst', 'allocas', 'visits')

    def clone(self):
        f = Frame()
        f.F = self.F
        f.regs = self.regs[:]
        f.bi = self.bi
        f.ip = self.ip
        f.dst = self.dst
        f.allocas = self.allocas[:]
        f.visits = dict(self.visits)
        return f


class State(object):
    __slots__ = ('frames', 'mem', 'owned', 'pc', 'next_obj', 'nondet', 'obs', 'decisions', 'keep',
                 'obligations', 'freed', 'steps', 'notes', 'user', 'depth')

    def clone(self):
        s = State()
        s.frames = [f.clone() for f in self.frames]
        s.mem = dict(self.mem)
        s.owned = set()
        self.owned = set()
        s.pc = self.pc[:]
        s.next_obj = self.next_obj
        s.nondet = self.nondet[:]
        s.obs = self.obs[:]
        s.decisions = dict(self.decisions)
        s.keep = self.keep[:]
        s.obligations = self.obligations[:]
        s.freed = set(self.freed)
        s.steps = self.steps
        s.notes = self.notes[:]
        s.user = dict(self.user)
        s.depth = self.depth + 1
        return s


class Leaf(object):
    """A finished path."""
    __slots__ = ('pc', 'obs', 'nondet', 'obligations', 'status', 'defect', 'ret', 'notes', 'steps',
                 'model', 'user')


def _sx(v, bits):
    return v - (1 << bits) if v >> (bits - 1) else v


class SolverCtx(object):
    """One incremental z3 solver whose assertion stack follows the current path condition."""

    def __init__(self, timeout_ms=60000):
        self.s = z3.Solver()
        self.s.set('timeout', timeout_ms)
        self.stack = []
        self.checks = 0
        self.time = 0.0
        self.unknown = 0
        self.deadline = None

    def _sync(self, pc):
        st = self.stack
        n = 0
        m = min(len(st), len(pc))
        while n < m and st[n] is pc[n]:
            n += 1
        while len(st) > n:
            self.s.pop()
            st.pop()
        for c in pc[n:]:
            self.s.push()
            self.s.add(c)
            st.append(c)

    def check(self, pc, extra=None):
        """'sat' | 'unsat' | 'unknown' for pc (+ extra)."""
        if self.deadline is not None and time.time() > self.deadline:
            raise EngineError('time budget exceeded inside the solver loop')
        self._sync(pc)
        t = time.time()
        self.checks += 1
        if extra is not None:
            self.s.push()
            self.s.add(extra)
            r = self.s.check()
            if r == z3.sat:
                self._model = self.s.model()
            self.s.pop()
        else:
            r = self.s.check()
            if r == z3.sat:
                self._model = self.s.model()
        self.time += time.time() - t
        r = str(r)
        if r == 'unknown':
            self.unknown += 1
        return r

    def model(self):
        return self._model


class Engine(object):
    def __init__(self, module, loop_limit=64, mode='eager', solver_timeout_ms=60000,
                 max_paths=200000, defer_traps=False, max_steps=50_000_000):
        self.m = module
        self.loop_limit = loop_limit
        self.loop_limits = {}      # function name -> limit
        self.mode = mode           # 'eager': check feasibility at every symbolic branch
        self.defer_traps = defer_traps
        self.ctx = SolverCtx(solver_timeout_ms)
        self.max_paths = max_paths
        self.max_steps = max_steps
        self.intercepts = {}       # function name -> fn(engine, state, args) -> value | NotImplemented
        self.watches = {}          # function name -> fn(engine, state, args)
        self.builtins = dict(_BUILTINS)
        self.trap_blocks = {}
        self.stats = {'paths': 0, 'forks': 0, 'steps': 0, 'infeasible': 0, 'defects': 0,
                      'trap_checks': 0, 'concretizations': 0}
        self.called = set()
        self._fresh = 0
        self.leaves = []
        self.on_leaf = None
        self.ite_load_max = 1024
        self.nondet_values = None
        self.div_witness = False
        self.resolve_bools = False
        self.fresh_tag = ''
        self.params = None
        self.deadline = None      # wall-clock time after which exploration stops with EngineError
        self._cur_state = None

    # ------------------------------------------------------------------
    def fresh(self, prefix, bits):
        self._fresh += 1
        return z3.BitVec('%s%s!%d' % (prefix, self.fresh_tag, self._fresh), bits)

    def _trapset(self, F):
        ts = self.trap_blocks.get(F.name)
        if ts is None:
            ts = set()
            for bi, code in enumerate(F.blocks):
                if code and code[0][0] == I_CALL and code[0][2] in ('llvm.ubsantrap', 'llvm.trap') \
                        and not F.phis[bi]:
                    ts.add(bi)
            self.trap_blocks[F.name] = ts
        return ts

    # ---- running ---------------------------------------------------------
    def initial_state(self):
        st = State()
        st.frames = []
        st.mem = {}
        st.owned = set()
        st.pc = []
        st.next_obj = self.m._next_id + 1
        st.nondet = []
        st.obs = []
        st.decisions = {}
        st.keep = []
        st.obligations = []
        st.freed = set()
        st.steps = 0
        st.notes = []
        st.user = {}
        st.depth = 0
        return st

    def push_call(self, st, F, args, dst):
        if len(args) != F.nparams:
            raise EngineError('arity mismatch calling ' + F.name)
        fr = Frame()
        fr.F = F
        regs = F.init_regs[:]
        regs[0:len(args)] = args
        fr.regs = regs
        fr.bi = 0
        fr.ip = 0
        fr.dst = dst
        fr.allocas = []
        fr.visits = {0: 1}
        st.frames.append(fr)
        self.called.add(F.name)

    def run(self, entry, args=(), state=None):
        """Explore all paths of entry(args).  Returns list of Leaf."""
        F = self.m.function(entry)
        st = state if state is not None else self.initial_state()
        if state is None and self.m.global_ctors:
            # run the static constructors first (concrete, single path)
            for name in self.m.global_ctors:
                self.push_call(st, self.m.function(name), [], -1)
                try:
                    self._run_state(st)
                except _PathEnd as pe:
                    lf = pe.args[0]
                    if lf.status != 'ok':
                        raise EngineError('static constructor %s did not complete: %s' % (name, lf.status))
                    st.steps = lf.steps
                except _Fork:
                    raise EngineError('static constructor %s forks' % name)
        self.push_call(st, F, list(args), -1)
        return self.explore(st)

    def explore(self, st0):
        work = [st0]
        leaves = []
        while work:
            st = work.pop()
            if self.deadline is not None and time.time() > self.deadline:
                raise EngineError('time budget exceeded (%d paths finished, %d pending)' % (
                    self.stats['paths'], len(work) + 1))
            try:
                self._run_state(st)
            except _Fork as fk:
                self.stats['forks'] += 1
                alts = fk.alts
                for k, (cons, key, val) in enumerate(alts):
                    s2 = st.clone() if k < len(alts) - 1 else st
                    if cons is not None:
                        s2.pc.append(cons)
                    if key is not None:
                        s2.decisions[key] = val
                        s2.keep.append(fk.keep)
                    work.append(s2)
                if len(work) + len(leaves) > self.max_paths:
                    raise EngineError('path limit exceeded')
                continue
            except _PathEnd as pe:
                leaf = pe.args[0]
                self.stats['paths'] += 1
                self.stats['steps'] += leaf.steps
                if self.on_leaf is not None:
                    self.on_leaf(leaf)
                else:
                    leaves.append(leaf)
        return leaves

    def _finish(self, st, status, defect=None, ret=None):
        lf = Leaf()
        lf.pc = st.pc
        lf.obs = st.obs
        lf.nondet = st.nondet
        lf.obligations = st.obligations
        lf.status = status
        lf.defect = defect
        lf.ret = ret
        lf.notes = st.notes
        lf.steps = st.steps
        lf.model = None
        lf.user = st.user
        raise _PathEnd(lf)

    def _defect(self, st, d):
        # a defect only counts when the path is feasible
        r = self.ctx.check(st.pc)
        if r == 'unsat':
            self.stats['infeasible'] += 1
            self._finish(st, 'infeasible')
        self.stats['defects'] += 1
        fr = st.frames[-1]
        where = '%s (%s:%s)' % (fr.F.name, fr.F.file, d.line or '?')
        stack = [f.F.name for f in st.frames]
        lf_def = {'kind': d.kind, 'msg': d.msg, 'where': where, 'stack': stack, 'solver': r}
        if r == 'sat':
            lf_def['model'] = self.model_values(st, self.ctx.model())
        self._finish(st, 'defect', defect=lf_def)

    def model_values(self, st, model):
        out = []
        for name, term, bits in st.nondet:
            v = model.eval(term, model_completion=True)
            out.append((name, v.as_long(), bits))
        return out

    # ---- decisions ---------------------------------------------------------
    def decide(self, st, cond):
        """Truth value of symbolic Bool cond on this path (forks when both feasible)."""
        c = z3.simplify(cond)
        if is_true(c):
            return True
        if is_false(c):
            return False
        key = c.get_id()
        d = st.decisions.get(key)
        if d is not None:
            return d
        if self.mode == 'lazy':
            raise _Fork([(c, key, True), (z3.Not(c), key, False)], c)
        # 'unknown' is treated as feasible: an infeasible path only yields obligations that
        # contain its (unsatisfiable) path condition, so this is sound.
        r1 = self.ctx.check(st.pc, c)
        st.keep.append(c)
        if r1 == 'unsat':
            st.decisions[key] = False
            return False
        r2 = self.ctx.check(st.pc, z3.Not(c))
        if r2 == 'unsat':
            st.decisions[key] = True
            return True
        raise _Fork([(c, key, True), (z3.Not(c), key, False)], c)

    def resolve(self, st, cond):
        """True/False when the path condition decides the Bool term, else None (never forks)."""
        c = z3.simplify(cond)
        if is_true(c):
            return True
        if is_false(c):
            return False
        key = c.get_id()
        d = st.decisions.get(key)
        if d is not None:
            return d
        rk = ('r', key)
        if rk in st.decisions:
            return None
        st.keep.append(c)
        if self.ctx.check(st.pc, c) == 'unsat':
            st.decisions[key] = False
            return False
        if self.ctx.check(st.pc, z3.Not(c)) == 'unsat':
            st.decisions[key] = True
            return True
        st.decisions[rk] = 0
        return None

    def concretize(self, st, term, limit=4096, what='value'):
        """Case split: a concrete value of term on this path (forks once per feasible value)."""
        if type(term) is int:
            return term
        t = z3.simplify(term)
        if z3.is_bv_value(t):
            return t.as_long()
        key = ('c', t.get_id())
        d = st.decisions.get(key)
        if d is not None:
            return d
        self.stats['concretizations'] += 1
        vals = []
        block = []
        while True:
            r = self.ctx.check(st.pc, z3.And(block) if block else None)
            if r == 'unknown':
                raise EngineError('solver unknown while enumerating ' + what)
            if r == 'unsat':
                break
            v = self.ctx.model().eval(t, model_completion=True).as_long()
            vals.append(v)
            block.append(t != v)
            if len(vals) > limit:
                raise EngineError('more than %d feasible values for %s' % (limit, what))
        if not vals:
            self.stats['infeasible'] += 1
            self._finish(st, 'infeasible')
        st.keep.append(t)
        if len(vals) == 1:
            st.decisions[key] = vals[0]
            return vals[0]
        raise _Fork([(t == v, key, v) for v in vals], t)

    def assume(self, st, cond):
        if type(cond) is int:
            if not cond:
                self._finish(st, 'assume-false')
            return
        c = z3.simplify(cond)
        if is_true(c):
            return
        if is_false(c):
            self._finish(st, 'assume-false')
        st.pc.append(c)
        if self.mode == 'eager':
            r = self.ctx.check(st.pc)
            if r == 'unsat':
                self._finish(st, 'assume-false')

    # ---- memory ------------------------------------------------------------
    def _cells(self, st, obj, write, line=0):
        o = st.mem.get(obj)
        if o is not None:
            if write and obj not in st.owned:
                o = Obj(o.cells[:], o.name, o.kind)
                st.mem[obj] = o
                st.owned.add(obj)
            return o.cells
        if obj == 0:
            raise Defect('memory', 'null pointer dereference', line)
        g = self.m.obj_by_id.get(obj)
        if g is None:
            if obj in st.freed:
                raise Defect('memory', 'use of a dead stack object', line)
            raise Defect('memory', 'access through invalid pointer (object %d)' % obj, line)
        if isinstance(g, _ld.Function):
            raise Defect('memory', 'data access to function ' + g.name, line)
        if g.const:
            if write:
                raise Defect('memory', 'write to constant ' + g.name, line)
            return self.m.global_cells(g)
        o = Obj(self.m.global_cells(g)[:], g.name, 'global')
        st.mem[obj] = o
        st.owned.add(obj)
        return o.cells

    def obj_name(self, st, obj):
        o = st.mem.get(obj)
        if o is not None:
            return o.name
        g = self.m.obj_by_id.get(obj)
        return g.name if g is not None else 'object %d' % obj

    def alloc(self, st, size, name, kind='stack', fill=None):
        oid = st.next_obj
        st.next_obj += 1
        st.mem[oid] = Obj([fill] * size, name, kind)
        st.owned.add(oid)
        return oid

    def _off(self, st, p, line):
        off = p.off
        if type(off) is not int:
            off = self.concretize(st, off, what='pointer offset')
            off = _sx(off, 64)
        return off

    def load(self, st, p, nbytes, kind, bits, line=0):
        if p.__class__ is not Ptr:
            if p is UNDEF:
                raise EngineError('load through undef pointer')
            raise EngineError('load through non-pointer %r' % (p,))
        off = p.off
        if type(off) is not int:
            cells = self._cells(st, p.obj, False, line)
            return self._load_symbolic(st, p, cells, nbytes, kind, bits, line)
        cells = self._cells(st, p.obj, False, line)
        if off < 0 or off + nbytes > len(cells):
            raise Defect('memory', 'out-of-bounds read of %d bytes at offset %d of %s (size %d)' % (
                nbytes, off, self.obj_name(st, p.obj), len(cells)), line)
        if nbytes == 1:
            c = cells[off]
            if type(c) is int:
                if bits == 1:
                    return c & 1
                return c
            cs = (c,)
        else:
            cs = cells[off:off + nbytes]
            for c in cs:
                if type(c) is not int:
                    break
            else:
                v = int.from_bytes(bytes(cs), 'little')
                if kind == 'p':
                    return Ptr(v >> 32, v & 0xffffffff) if v else NULL
                return v & ((1 << bits) - 1)
        # symbolic / fragment path
        c0 = cs[0]
        if type(c0) is tuple and c0[2] == 0 and c0[3] == nbytes:
            val = c0[1]
            for k in range(1, nbytes):
                c = cs[k]
                if type(c) is not tuple or c[1] is not val or c[2] != k:
                    break
            else:
                if val.__class__ is Ptr:
                    if kind == 'p':
                        return val
                    return self.ptrtoint(val, bits)
                if kind == 'p':
                    return self.inttoptr(st, val)
                if bits == 1:
                    return z3.Extract(0, 0, val) == 1
                if bits < 8 * nbytes:
                    return z3.Extract(bits - 1, 0, val)
                return val
        parts = []
        for c in cs:
            if type(c) is int:
                parts.append(BitVecVal(c, 8))
            elif c is None:
                st.notes.append('uninitialised byte read at %s line %d' % (self.obj_name(st, p.obj), line))
                parts.append(self.fresh('uninit', 8))
            else:
                v = c[1]
                if v.__class__ is Ptr:
                    v = self.ptrtoint(v, 64)
                    if type(v) is int:
                        parts.append(BitVecVal((v >> (8 * c[2])) & 0xff, 8))
                        continue
                parts.append(z3.Extract(8 * c[2] + 7, 8 * c[2], v))
        parts.reverse()
        v = z3.simplify(z3.Concat(*parts)) if len(parts) > 1 else z3.simplify(parts[0])
        if z3.is_bv_value(v):
            v = v.as_long()
            if kind == 'p':
                return Ptr(v >> 32, v & 0xffffffff) if v else NULL
            return v & ((1 << bits) - 1)
        if kind == 'p':
            return self.inttoptr(st, v)
        if bits == 1:
            return z3.Extract(0, 0, v) == 1
        if bits < 8 * nbytes:
            return z3.Extract(bits - 1, 0, v)
        return v

    def _load_symbolic(self, st, p, cells, nbytes, kind, bits, line):
        """Load through a pointer whose offset is a term: enumerate the feasible offsets with the solver
        (model / block / repeat); an out-of-bounds one is a defect (forked off), the in-bounds ones are
        combined into an ite chain."""
        off = z3.simplify(p.off)
        if z3.is_bv_value(off):
            return self.load(st, Ptr(p.obj, _sx(off.as_long(), 64)), nbytes, kind, bits, line)
        size = len(cells)
        last = size - nbytes
        key = ('lo', off.get_id(), nbytes)
        cands = st.decisions.get(key)
        if cands is None:
            st.keep.append(off)
            cands = []
            block = []
            while True:
                r = self.ctx.check(st.pc, z3.And(block) if block else None)
                if r == 'unknown':
                    raise EngineError('solver unknown while enumerating pointer offsets')
                if r == 'unsat':
                    break
                v = self.ctx.model().eval(off, model_completion=True).as_long()
                cands.append(_sx(v, 64))
                block.append(off != v)
                if len(cands) > 256:
                    raise EngineError('more than 256 feasible offsets for a symbolic pointer')
            st.decisions[key] = cands
        if not cands:
            self.stats['infeasible'] += 1
            self._finish(st, 'infeasible')
        bad = [k for k in cands if k < 0 or k > last]
        if bad:
            oob = z3.Or([off == k for k in bad])
            okey = ('oob', off.get_id(), nbytes)
            d = st.decisions.get(okey)
            if d is None:
                if len(bad) == len(cands):
                    d = True
                else:
                    raise _Fork([(oob, okey, True), (z3.Not(oob), okey, False)], off)
            if d:
                raise Defect('memory', 'out-of-bounds read of %d bytes at offset %d of %s (size %d)' % (
                    nbytes, bad[0], self.obj_name(st, p.obj), size), line)
            cands = [k for k in cands if not (k < 0 or k > last)]
        vals = [self.load(st, Ptr(p.obj, k), nbytes, kind, bits, line) for k in cands]
        res = vals[-1]
        for k, v in zip(cands[-2::-1], vals[-2::-1]):
            res = self._select(st, off == k, v, res, 'p' if kind == 'p' else 'i', bits)
        return res

    def store(self, st, val, p, nbytes, kind, bits, line=0):
        if p.__class__ is not Ptr:
            raise EngineError('store through non-pointer %r' % (p,))
        off = p.off
        if type(off) is not int:
            off = self._off(st, p, line)
        cells = self._cells(st, p.obj, True, line)
        if off < 0 or off + nbytes > len(cells):
            raise Defect('memory', 'out-of-bounds write of %d bytes at offset %d of %s (size %d)' % (
                nbytes, off, self.obj_name(st, p.obj), len(cells)), line)
        if type(val) is int:
            if nbytes == 1:
                cells[off] = val & 0xff
            else:
                cells[off:off + nbytes] = list((val & ((1 << (8 * nbytes)) - 1)).to_bytes(nbytes, 'little'))
            return
        if val is UNDEF:
            for k in range(nbytes):
                cells[off + k] = None
            return
        if val.__class__ is Ptr:
            if val.obj == 0 and type(val.off) is int and val.off == 0:
                for k in range(nbytes):
                    cells[off + k] = 0
                return
        elif z3.is_bool(val):
            val = z3.If(val, BitVecVal(1, 8 * nbytes), BitVecVal(0, 8 * nbytes))
        elif val.size() < 8 * nbytes:
            val = z3.ZeroExt(8 * nbytes - val.size(), val)
        for k in range(nbytes):
            cells[off + k] = ('f', val, k, nbytes)

    def ptrtoint(self, p, bits):
        if type(p) is int or z3.is_bv(p):
            return p
        off = p.off
        if type(off) is int:
            v = ((p.obj << 32) + off) & 0xffffffffffffffff
            return v & ((1 << bits) - 1)
        v = BitVecVal(p.obj << 32, 64) + off
        if bits < 64:
            v = z3.Extract(bits - 1, 0, v)
        return v

    def inttoptr(self, st, v):
        if v.__class__ is Ptr:
            return v
        if type(v) is not int:
            v = self.concretize(st, v, what='integer cast to pointer')
        return Ptr(v >> 32, _sx(v & 0xffffffff, 32)) if v else NULL

    def read_cstr(self, st, p, maxlen=256):
        out = []
        for k in range(maxlen):
            b = self.load(st, Ptr(p.obj, p.off + k), 1, 'i', 8)
            if type(b) is not int:
                b = self.concretize(st, b, what='string byte')
            if b == 0:
                return bytes(out)
            out.append(b)
        raise EngineError('unterminated string')

    # ---- the interpreter loop ------------------------------------------------
    def _run_state(self, st):
        self._cur_state = st
        frames = st.frames
        load = self.load
        store = self.store
        while True:
            fr = frames[-1]
            F = fr.F
            regs = fr.regs
            code = F.blocks[fr.bi]
            ip = fr.ip
            steps = 0
            try:
                while True:
                    ins = code[ip]
                    op = ins[0]
                    steps += 1
                    if op == I_GEP:
                        base = regs[ins[2]]
                        if base.__class__ is not Ptr:
                            raise EngineError('gep on %r in %s' % (base, F.name))
                        off = base.off + ins[3]
                        for (s, stride, ibits) in ins[4]:
                            iv = regs[s]
                            if type(iv) is int:
                                if iv >> (ibits - 1):
                                    iv -= 1 << ibits
                                off = off + iv * stride
                            else:
                                if iv is UNDEF:
                                    raise EngineError('undef index')
                                if ibits < 64:
                                    iv = z3.SignExt(64 - ibits, iv)
                                if type(off) is int:
                                    off = BitVecVal(off, 64)
                                off = off + iv * BitVecVal(stride, 64)
                        regs[ins[1]] = Ptr(base.obj, off)
                        ip += 1
                    elif op == I_LOAD:
                        regs[ins[1]] = load(st, regs[ins[2]], ins[4], ins[3], ins[5], ins[6])
                        ip += 1
                    elif op == I_ICMP:
                        a = regs[ins[3]]
                        b = regs[ins[4]]
                        if type(a) is int and type(b) is int:
                            p = ins[2]
                            if p == P_EQ:
                                r = a == b
                            elif p == P_NE:
                                r = a != b
                            elif p == P_ULT:
                                r = a < b
                            elif p == P_UGT:
                                r = a > b
                            elif p == P_ULE:
                                r = a <= b
                            elif p == P_UGE:
                                r = a >= b
                            else:
                                bits = ins[5]
                                if a >> (bits - 1):
                                    a -= 1 << bits
                                if b >> (bits - 1):
                                    b -= 1 << bits
                                if p == P_SLT:
                                    r = a < b
                                elif p == P_SGT:
                                    r = a > b
                                elif p == P_SLE:
                                    r = a <= b
                                else:
                                    r = a >= b
                            regs[ins[1]] = 1 if r else 0
                        else:
                            regs[ins[1]] = self._icmp(st, ins[2], a, b, ins[5])
                        ip += 1
                    elif op == I_CBR:
                        c = regs[ins[1]]
                        if type(c) is not int:
                            if c is UNDEF:
                                raise EngineError('branch on undef in ' + F.name)
                            fr.ip = ip
                            st.steps += steps
                            steps = 0
                            c = self._branch(st, fr, c, ins)
                        nb = ins[2] if c else ins[3]
                        ip = self._enter(st, fr, nb, regs)
                        code = F.blocks[nb]
                    elif op == I_BR:
                        nb = ins[1]
                        ip = self._enter(st, fr, nb, regs)
                        code = F.blocks[nb]
                    elif op == I_CALL:
                        fr.ip = ip
                        st.steps += steps
                        steps = 0
                        if self._call(st, fr, ins, regs):
                            fr.ip = ip + 1
                            break        # new frame pushed
                        ip += 1
                    elif op == I_STORE:
                        store(st, regs[ins[1]], regs[ins[2]], ins[4], ins[3], ins[5], ins[6])
                        ip += 1
                    elif op in _ARITH:
                        a = regs[ins[2]]
                        b = regs[ins[3]]
                        if type(a) is int and type(b) is int:
                            regs[ins[1]] = _conc_arith(op, a, b, ins[4])
                        else:
                            regs[ins[1]] = self._sym_arith(op, a, b, ins[4])
                        ip += 1
                    elif op == I_ZEXT:
                        a = regs[ins[2]]
                        if type(a) is int:
                            regs[ins[1]] = a
                        elif a is UNDEF:
                            regs[ins[1]] = UNDEF
                        elif z3.is_bool(a):
                            r = self.resolve(st, a) if self.resolve_bools else None
                            if r is not None:
                                regs[ins[1]] = 1 if r else 0
                            else:
                                regs[ins[1]] = z3.If(a, BitVecVal(1, ins[4]), BitVecVal(0, ins[4]))
                        else:
                            regs[ins[1]] = z3.ZeroExt(ins[4] - ins[3], a)
                        ip += 1
                    elif op == I_MOV or op == I_FREEZE:
                        regs[ins[1]] = regs[ins[2]]
                        ip += 1
                    elif op == I_SELECT:
                        c = regs[ins[2]]
                        if type(c) is int:
                            regs[ins[1]] = regs[ins[3]] if c else regs[ins[4]]
                        else:
                            fr.ip = ip
                            regs[ins[1]] = self._select(st, c, regs[ins[3]], regs[ins[4]], ins[5], ins[6])
                        ip += 1
                    elif op == I_RET:
                        rv = regs[ins[1]] if ins[1] >= 0 else None
                        st.steps += steps
                        steps = 0
                        for oid in fr.allocas:
                            st.mem.pop(oid, None)
                            st.freed.add(oid)
                        frames.pop()
                        if not frames:
                            self._finish(st, 'ok', ret=rv)
                        if fr.dst >= 0:
                            frames[-1].regs[fr.dst] = rv
                        break
                    elif op == I_EXTRACT:
                        v = regs[ins[2]]
                        for k in ins[3]:
                            v = v[k]
                        regs[ins[1]] = v
                        ip += 1
                    elif op == I_SEXT:
                        a = regs[ins[2]]
                        if type(a) is int:
                            fb = ins[3]
                            if a >> (fb - 1):
                                a = (a - (1 << fb)) & ((1 << ins[4]) - 1)
                            regs[ins[1]] = a
                        elif z3.is_bool(a):
                            r = self.resolve(st, a) if self.resolve_bools else None
                            if r is not None:
                                regs[ins[1]] = ((1 << ins[4]) - 1) if r else 0
                            else:
                                regs[ins[1]] = z3.If(a, BitVecVal(-1, ins[4]), BitVecVal(0, ins[4]))
                        elif a is UNDEF:
                            regs[ins[1]] = UNDEF
                        else:
                            regs[ins[1]] = z3.SignExt(ins[4] - ins[3], a)
                        ip += 1
                    elif op == I_TRUNC:
                        a = regs[ins[2]]
                        if type(a) is int:
                            regs[ins[1]] = a & ((1 << ins[4]) - 1)
                        elif a is UNDEF:
                            regs[ins[1]] = UNDEF
                        elif ins[4] == 1:
                            regs[ins[1]] = z3.Extract(0, 0, a) == 1
                        else:
                            regs[ins[1]] = z3.Extract(ins[4] - 1, 0, a)
                        ip += 1
                    elif op == I_ALLOCA:
                        oid = self.alloc(st, ins[2], '%s:alloca' % F.name)
                        fr.allocas.append(oid)
                        regs[ins[1]] = Ptr(oid, 0)
                        ip += 1
                    elif op == I_PTRTOINT:
                        regs[ins[1]] = self.ptrtoint(regs[ins[2]], ins[3])
                        ip += 1
                    elif op == I_INTTOPTR:
                        fr.ip = ip
                        regs[ins[1]] = self.inttoptr(st, regs[ins[2]])
                        ip += 1
                    elif op == I_SWITCH:
                        c = regs[ins[1]]
                        if type(c) is not int:
                            fr.ip = ip
                            st.steps += steps
                            steps = 0
                            c = self.concretize(st, c, what='switch operand')
                        nb = ins[2]
                        for cv, tb in ins[3]:
                            if cv == c:
                                nb = tb
                                break
                        ip = self._enter(st, fr, nb, regs)
                        code = F.blocks[nb]
                    elif op == I_INSERT:
                        regs[ins[1]] = _insert(regs[ins[2]], regs[ins[3]], ins[4])
                        ip += 1
                    elif op == I_UNREACHABLE:
                        raise Defect('UB', 'unreachable executed', ins[1])
                    else:
                        raise EngineError('unhandled lowered opcode %d' % op)
            except _Fork:
                fr.ip = ip
                st.steps += steps
                raise
            except Defect as d:
                fr.ip = ip
                st.steps += steps
                self._defect(st, d)
            st.steps += steps
            if st.steps > self.max_steps:
                raise EngineError('step limit exceeded')

    def _enter(self, st, fr, nb, regs):
        F = fr.F
        ph = F.phis[nb]
        if ph:
            prev = fr.bi
            vals = [regs[inc[prev]] for (_, inc) in ph]
            for (d, _), v in zip(ph, vals):
                regs[d] = v
        fr.bi = nb
        vs = fr.visits
        n = vs.get(nb, 0) + 1
        vs[nb] = n
        if n > self.loop_limit:
            lim = self.loop_limits.get(F.name, self.loop_limit)
            if n > lim:
                fr.ip = 0
                raise Defect('unwind', 'loop in %s does not terminate within %d iterations' % (F.name, lim))
        return 0

    def _branch(self, st, fr, c, ins):
        """Resolve a symbolic conditional branch; returns truth value (may fork)."""
        F = fr.F
        ts = self._trapset(F)
        t_trap = ins[2] in ts
        f_trap = ins[3] in ts
        if t_trap or f_trap:
            # UB check inserted by the sanitizer front end
            self.stats['trap_checks'] += 1
            trapcond = c if t_trap else z3.Not(c)
            tc = z3.simplify(trapcond)
            if is_false(tc):
                return not t_trap
            key = ('t', tc.get_id())
            if key in st.decisions:
                return st.decisions[key]
            st.keep.append(tc)
            if self.defer_traps:
                st.obligations.append(('trap', tc, '%s:%s line %d' % (F.name, F.file, ins[4]), list(st.pc)))
                st.decisions[key] = not t_trap
                return not t_trap
            r = self.ctx.check(st.pc, tc)
            if r == 'unknown':
                # undecided here: keep it as an obligation for the portfolio and continue on the normal side
                st.obligations.append(('trap', tc, '%s:%s line %d' % (F.name, F.file, ins[4]), list(st.pc)))
                st.decisions[key] = not t_trap
                return not t_trap
            if r == 'unsat':
                st.decisions[key] = not t_trap
                return not t_trap
            # the trap is reachable: explore the trap side (a defect) and the normal side
            r2 = self.ctx.check(st.pc, z3.Not(tc))
            if r2 == 'unknown':
                raise EngineError('solver unknown on UB check')
            if r2 == 'unsat':
                st.decisions[key] = t_trap
                return t_trap
            raise _Fork([(tc, key, t_trap), (z3.Not(tc), key, not t_trap)], tc)
        return self.decide(st, c)

    def _icmp(self, st, p, a, b, bits):
        if a is UNDEF or b is UNDEF:
            raise EngineError('icmp on undef')
        if a.__class__ is Ptr or b.__class__ is Ptr:
            return self._icmp_ptr(st, p, a, b)
        if z3.is_bool(a) or z3.is_bool(b):
            if type(a) is int:
                a = z3.BoolVal(bool(a))
            if type(b) is int:
                b = z3.BoolVal(bool(b))
            if p == P_EQ:
                return a == b
            if p == P_NE:
                return a != b
            raise EngineError('ordered compare on i1')
        if type(a) is int:
            a = BitVecVal(a, bits)
        if type(b) is int:
            b = BitVecVal(b, bits)
        if p == P_EQ:
            return a == b
        if p == P_NE:
            return a != b
        if p == P_ULT:
            return z3.ULT(a, b)
        if p == P_ULE:
            return z3.ULE(a, b)
        if p == P_UGT:
            return z3.UGT(a, b)
        if p == P_UGE:
            return z3.UGE(a, b)
        if p == P_SLT:
            return a < b
        if p == P_SLE:
            return a <= b
        if p == P_SGT:
            return a > b
        return a >= b

    def _icmp_ptr(self, st, p, a, b):
        if a.__class__ is not Ptr:
            a = self.inttoptr(st, a)
        if b.__class__ is not Ptr:
            b = self.inttoptr(st, b)
        if a.obj != b.obj:
            if p == P_EQ:
                return 0
            if p == P_NE:
                return 1
            raise EngineError('ordered comparison of pointers into different objects')
        ao, bo = a.off, b.off
        if type(ao) is int and type(bo) is int:
            return 1 if {P_EQ: ao == bo, P_NE: ao != bo, P_ULT: ao < bo, P_ULE: ao <= bo, P_UGT: ao > bo,
                         P_UGE: ao >= bo, P_SLT: ao < bo, P_SLE: ao <= bo, P_SGT: ao > bo,
                         P_SGE: ao >= bo}[p] else 0
        if type(ao) is int:
            ao = BitVecVal(ao, 64)
        if type(bo) is int:
            bo = BitVecVal(bo, 64)
        return self._icmp(st, {P_ULT: P_SLT, P_ULE: P_SLE, P_UGT: P_SGT, P_UGE: P_SGE}.get(p, p), ao, bo, 64)

    def _select(self, st, c, a, b, kind, bits):
        if c is UNDEF:
            raise EngineError('select on undef')
        cs = z3.simplify(c)
        if is_true(cs):
            return a
        if is_false(cs):
            return b
        if a is b:
            return a
        if self.resolve_bools:
            r = self.resolve(st, cs)
            if r is not None:
                return a if r else b
        if kind == 'i':
            if a is UNDEF:
                return b
            if b is UNDEF:
                return a
            if z3.is_bool(a) or z3.is_bool(b):
                if type(a) is int:
                    a = z3.BoolVal(bool(a))
                if type(b) is int:
                    b = z3.BoolVal(bool(b))
                return z3.If(cs, a, b)
            if type(a) is int:
                if type(b) is int and a == b:
                    return a
                if bits == 1:
                    a = z3.BoolVal(bool(a))
                else:
                    a = BitVecVal(a, bits)
            if type(b) is int:
                if bits == 1:
                    b = z3.BoolVal(bool(b))
                else:
                    b = BitVecVal(b, bits)
            return z3.If(cs, a, b)
        if kind == 'p':
            if a.__class__ is Ptr and b.__class__ is Ptr and a.obj == b.obj:
                ao, bo = a.off, b.off
                if type(ao) is int and type(bo) is int and ao == bo:
                    return a
                if type(ao) is int:
                    ao = BitVecVal(ao, 64)
                if type(bo) is int:
                    bo = BitVecVal(bo, 64)
                return Ptr(a.obj, z3.If(cs, ao, bo))
        return a if self.decide(st, cs) else b

    def _sym_arith(self, op, a, b, bits):
        if a is UNDEF or b is UNDEF:
            if op in (I_OR, I_AND, I_SHL, I_LSHR) and (a is UNDEF) != (b is UNDEF):
                raise EngineError('arithmetic on undef')
            raise EngineError('arithmetic on undef')
        if bits == 1 or z3.is_bool(a) or z3.is_bool(b):
            if type(a) is int:
                a = z3.BoolVal(bool(a & 1))
            if type(b) is int:
                b = z3.BoolVal(bool(b & 1))
            if op == I_AND:
                return z3.And(a, b)
            if op == I_OR:
                return z3.Or(a, b)
            if op == I_XOR:
                return z3.Xor(a, b)
            raise EngineError('i1 arithmetic opcode %d' % op)
        if self.div_witness and self._cur_state is not None and type(b) is int and op in _DIVOPS and b != 0 \
                and type(a) is not int:
            r = self._div_by_const(self._cur_state, op, a, b, bits)
            if r is not None:
                return r
        if type(a) is int:
            a = BitVecVal(a, bits)
        if type(b) is int:
            b = BitVecVal(b, bits)
        if op == I_ADD:
            return a + b
        if op == I_SUB:
            return a - b
        if op == I_MUL:
            return a * b
        if op == I_AND:
            return a & b
        if op == I_OR:
            return a | b
        if op == I_XOR:
            return a ^ b
        if op == I_SHL:
            return a << b
        if op == I_LSHR:
            return z3.LShR(a, b)
        if op == I_ASHR:
            return a >> b
        if op == I_UDIV:
            return z3.UDiv(a, b)
        if op == I_UREM:
            return z3.URem(a, b)
        if op == I_SDIV:
            return a / b
        if op == I_SREM:
            return z3.SRem(a, b)
        raise EngineError('arith opcode %d' % op)

    def _div_by_const(self, st, op, a, c, bits):
        """x div/rem C for a constant C>0, encoded with quotient/remainder witnesses:
        fresh q, r with x = q*C + r and the sign/range conditions that make them unique.
        The defining constraints are appended to the path condition (they are satisfiable for every x,
        so they do not restrict it).  Results are cached per (x, C, signedness)."""
        signed = op in (I_SDIV, I_SREM)
        if signed:
            c = _sx(c, bits)
            if c <= 0:
                return None
        key = ('div', a.get_id(), c, signed)
        hit = st.user.get(key)
        if hit is None:
            ext = 8
            w = bits + ext
            q = self.fresh('q', bits)
            if signed:
                maxq = (1 << (bits - 1)) // c
                xe, qe = z3.SignExt(ext, a), z3.SignExt(ext, q)
                re_ = xe - qe * BitVecVal(c, w)
                cons = z3.And(q >= -maxq, q <= maxq,
                              z3.If(a >= 0, z3.And(re_ >= 0, re_ < c), z3.And(re_ <= 0, re_ > -c)))
            else:
                maxq = ((1 << bits) - 1) // c
                xe, qe = z3.ZeroExt(ext, a), z3.ZeroExt(ext, q)
                re_ = xe - qe * BitVecVal(c, w)
                cons = z3.And(z3.ULE(q, maxq), re_ >= 0, re_ < c)
            r = z3.Extract(bits - 1, 0, re_)
            st.pc.append(cons)
            hit = (q, r, a)
            st.user[key] = hit
            self.stats['div_witnesses'] = self.stats.get('div_witnesses', 0) + 1
        return hit[0] if op in (I_SDIV, I_UDIV) else hit[1]

    # ---- calls -----------------------------------------------------------
    def _call(self, st, fr, ins, regs):
        """Returns True when a new frame was pushed."""
        callee = ins[2]
        args = [regs[s] for s in ins[3]]
        if type(callee) is not str:
            p = regs[callee]
            if p.__class__ is not Ptr:
                raise EngineError('indirect call through %r' % (p,))
            off = p.off
            if type(off) is not int:
                off = self.concretize(st, off, what='function pointer')
            g = self.m.obj_by_id.get(p.obj)
            if g is None or not isinstance(g, _ld.Function) or off != 0:
                if p.obj == 0:
                    raise Defect('memory', 'call through null function pointer', ins[4])
                raise Defect('memory', 'call through invalid function pointer', ins[4])
            callee = g.name
        w = self.watches.get(callee)
        if w is not None:
            w(self, st, args)
        ic = self.intercepts.get(callee)
        if ic is not None:
            r = ic(self, st, args)
            if r is not NotImplemented:
                if ins[1] >= 0:
                    regs[ins[1]] = r
                return False
        bi = self.builtins.get(callee)
        if bi is not None:
            r = bi(self, st, args, ins[4])
            if ins[1] >= 0:
                regs[ins[1]] = r
            return False
        if callee.startswith('llvm.'):
            r = self._intrinsic(st, callee, args, ins[4])
            if ins[1] >= 0:
                regs[ins[1]] = r
            return False
        F = self.m.functions.get(callee)
        if F is None or F.is_decl:
            raise EngineError('call to undefined function ' + callee)
        if F.blocks is None:
            self.m.function(callee)
        self.push_call(st, F, args, ins[1])
        if len(st.frames) > 200:
            raise Defect('unwind', 'call depth exceeds 200', ins[4])
        return True

    def _intrinsic(self, st, name, args, line):
        if name in ('llvm.ubsantrap', 'llvm.trap'):
            raise Defect('UB', 'sanitizer trap (%s)' % name, line)
        parts = name.split('.')
        if len(parts) >= 4 and parts[2] == 'with' and parts[3] == 'overflow':
            bits = int(parts[4][1:])
            return _with_overflow(parts[1], args[0], args[1], bits)
        if parts[1] in ('memcpy', 'memmove'):
            n = self.concretize(st, args[2], what='memcpy length')
            self.memcpy(st, args[0], args[1], n, line)
            return None
        if parts[1] == 'memset':
            n = self.concretize(st, args[2], what='memset length')
            v = args[1]
            if n:
                d = args[0]
                off = self._off(st, d, line)
                cells = self._cells(st, d.obj, True, line)
                if off < 0 or off + n > len(cells):
                    raise Defect('memory', 'out-of-bounds memset of %d bytes at offset %d of %s' % (
                        n, off, self.obj_name(st, d.obj)), line)
                for k in range(n):
                    cells[off + k] = v if type(v) is int else ('f', v, 0, 1)
            return None
        if parts[1] in ('umax', 'umin', 'smax', 'smin'):
            bits = int(parts[2][1:])
            a, b = args
            if type(a) is int and type(b) is int:
                if parts[1][0] == 's':
                    sa, sb = _sx(a, bits), _sx(b, bits)
                else:
                    sa, sb = a, b
                if parts[1].endswith('max'):
                    return a if sa >= sb else b
                return a if sa <= sb else b
            if type(a) is int:
                a = BitVecVal(a, bits)
            if type(b) is int:
                b = BitVecVal(b, bits)
            c = {'umax': z3.UGE, 'umin': z3.ULE, 'smax': lambda x, y: x >= y, 'smin': lambda x, y: x <= y}[parts[1]](a, b)
            return z3.If(c, a, b)
        if parts[1] == 'abs':
            bits = int(parts[2][1:])
            a = args[0]
            if type(a) is int:
                return (-_sx(a, bits)) & ((1 << bits) - 1) if a >> (bits - 1) else a
            return z3.If(a < 0, -a, a)
        raise EngineError('unknown intrinsic ' + name)

    def memcpy(self, st, d, s, n, line=0):
        if n == 0:
            return
        so = self._off(st, s, line)
        do = self._off(st, d, line)
        src = self._cells(st, s.obj, False, line)
        if so < 0 or so + n > len(src):
            raise Defect('memory', 'out-of-bounds read of %d bytes at offset %d of %s (size %d) in memcpy' % (
                n, so, self.obj_name(st, s.obj), len(src)), line)
        chunk = src[so:so + n]
        dst = self._cells(st, d.obj, True, line)
        if do < 0 or do + n > len(dst):
            raise Defect('memory', 'out-of-bounds write of %d bytes at offset %d of %s (size %d) in memcpy' % (
                n, do, self.obj_name(st, d.obj), len(dst)), line)
        dst[do:do + n] = chunk


_DIVOPS = frozenset([I_UDIV, I_SDIV, I_UREM, I_SREM])
_ARITH = frozenset([I_ADD, I_SUB, I_MUL, I_UDIV, I_SDIV, I_UREM, I_SREM, I_SHL, I_LSHR, I_ASHR, I_AND,
                    I_OR, I_XOR])


def _conc_arith(op, a, b, bits):
    mask = (1 << bits) - 1
    if op == I_ADD:
        return (a + b) & mask
    if op == I_SUB:
        return (a - b) & mask
    if op == I_MUL:
        return (a * b) & mask
    if op == I_AND:
        return a & b
    if op == I_OR:
        return a | b
    if op == I_XOR:
        return a ^ b
    if op == I_SHL:
        if b >= bits:
            raise EngineError('shl by >= width (poison)')
        return (a << b) & mask
    if op == I_LSHR:
        if b >= bits:
            raise EngineError('lshr by >= width (poison)')
        return a >> b
    if op == I_ASHR:
        if b >= bits:
            raise EngineError('ashr by >= width (poison)')
        return (_sx(a, bits) >> b) & mask
    if op == I_UDIV:
        if b == 0:
            raise Defect('UB', 'division by zero')
        return a // b
    if op == I_UREM:
        if b == 0:
            raise Defect('UB', 'division by zero')
        return a % b
    sa, sb = _sx(a, bits), _sx(b, bits)
    if sb == 0:
        raise Defect('UB', 'division by zero')
    q = abs(sa) // abs(sb)
    if (sa < 0) != (sb < 0):
        q = -q
    if op == I_SDIV:
        if q >= 1 << (bits - 1):
            raise Defect('UB', 'signed division overflow')
        return q & mask
    if op == I_SREM:
        return (sa - q * sb) & mask
    raise EngineError('arith opcode %d' % op)


def _insert(agg, val, idxs):
    l = list(agg)
    if len(idxs) == 1:
        l[idxs[0]] = val
    else:
        l[idxs[0]] = _insert(l[idxs[0]], val, idxs[1:])
    return tuple(l)


def _with_overflow(kind, a, b, bits):
    if type(a) is int and type(b) is int:
        mask = (1 << bits) - 1
        if kind[0] == 's':
            sa, sb = _sx(a, bits), _sx(b, bits)
            r = {'sadd': sa + sb, 'ssub': sa - sb, 'smul': sa * sb}[kind]
            ov = not (-(1 << (bits - 1)) <= r < (1 << (bits - 1)))
        else:
            r = {'uadd': a + b, 'usub': a - b, 'umul': a * b}[kind]
            ov = not (0 <= r <= mask)
        return (r & mask, 1 if ov else 0)
    if type(a) is int:
        a = BitVecVal(a, bits)
    if type(b) is int:
        b = BitVecVal(b, bits)
    if kind == 'sadd':
        return (a + b, z3.Not(z3.And(z3.BVAddNoOverflow(a, b, True), z3.BVAddNoUnderflow(a, b))))
    if kind == 'ssub':
        return (a - b, z3.Not(z3.And(z3.BVSubNoOverflow(a, b), z3.BVSubNoUnderflow(a, b, True))))
    if kind == 'smul':
        # exact: compare with the double-width product
        wa, wb = z3.SignExt(bits, a), z3.SignExt(bits, b)
        w = wa * wb
        return (a * b, w != z3.SignExt(bits, a * b))
    if kind == 'uadd':
        return (a + b, z3.Not(z3.BVAddNoOverflow(a, b, False)))
    if kind == 'usub':
        return (a - b, z3.ULT(a, b))
    if kind == 'umul':
        wa, wb = z3.ZeroExt(bits, a), z3.ZeroExt(bits, b)
        return (a * b, (wa * wb) != z3.ZeroExt(bits, a * b))
    raise EngineError('overflow intrinsic ' + kind)


# ---- harness builtins --------------------------------------------------------

def _bi_nondet(bits):
    def f(eng, st, args, line):
        name = eng.read_cstr(st, args[0]).decode() if args else 'v'
        idx = len(st.nondet)
        if eng.nondet_values is not None:
            if idx >= len(eng.nondet_values):
                raise EngineError('concrete nondet list exhausted')
            v = eng.nondet_values[idx] & ((1 << bits) - 1)
            st.nondet.append((name, v, bits))
            return v
        v = z3.BitVec('%s!%d' % (name, idx), bits)
        st.nondet.append((name, v, bits))
        return v
    return f


def _bi_assume(eng, st, args, line):
    eng.assume(st, args[0])
    return None


def _bi_assert(eng, st, args, line):
    c = args[0]
    tag = eng.read_cstr(st, args[1]).decode()
    if type(c) is int:
        if not c:
            st.obligations.append(('assert', z3.BoolVal(True), tag, list(st.pc)))
        else:
            st.user['asserts_trivial'] = st.user.get('asserts_trivial', 0) + 1
        return None
    st.obligations.append(('assert', z3.Not(c), tag, list(st.pc)))
    # assert-then-assume: the obligation is discharged separately, later code may rely on it
    cs = z3.simplify(c)
    if not is_true(cs):
        st.pc.append(cs)
    return None


def _bi_observe(eng, st, args, line):
    tag = eng.read_cstr(st, args[0]).decode()
    st.obs.append((tag, args[1]))
    return None


def _bi_observe_str(eng, st, args, line):
    tag = eng.read_cstr(st, args[0]).decode()
    st.obs.append((tag, eng.read_cstr(st, args[1])))
    return None


def _bi_observe_bytes(eng, st, args, line):
    tag = eng.read_cstr(st, args[0]).decode()
    n = eng.concretize(st, args[2], what='observe length')
    out = []
    for k in range(n):
        out.append(eng.load(st, Ptr(args[1].obj, args[1].off + k), 1, 'i', 8))
    st.obs.append((tag, tuple(out)))
    return None


def _bi_concretize(eng, st, args, line):
    return eng.concretize(st, args[0], what='harness concretize')


def _bi_param(eng, st, args, line):
    i = args[0]
    if type(i) is not int:
        raise EngineError('symbolic parameter index')
    if eng.params is None or i >= len(eng.params):
        raise EngineError('harness parameter %d not supplied' % i)
    return eng.params[i] & 0xffffffffffffffff


def _bi_noop(eng, st, args, line):
    return None


def _bi_reach(eng, st, args, line):
    tag = eng.read_cstr(st, args[0]).decode()
    st.user.setdefault('reached', []).append(tag)
    return None


def _bi_guard_acquire(eng, st, args, line):
    b = eng.load(st, args[0], 1, 'i', 8)
    return 0 if b else 1


def _bi_guard_release(eng, st, args, line):
    eng.store(st, 1, args[0], 1, 'i', 8)
    return None


def _bi_zero(eng, st, args, line):
    return 0


_BUILTINS = {
    '__cxa_guard_acquire': _bi_guard_acquire, '__cxa_guard_release': _bi_guard_release,
    '__cxa_atexit': _bi_zero,
    '__verif_nondet_i8': _bi_nondet(8), '__verif_nondet_u8': _bi_nondet(8),
    '__verif_nondet_i16': _bi_nondet(16), '__verif_nondet_u16': _bi_nondet(16),
    '__verif_nondet_i32': _bi_nondet(32), '__verif_nondet_u32': _bi_nondet(32),
    '__verif_nondet_i64': _bi_nondet(64), '__verif_nondet_u64': _bi_nondet(64),
    '__verif_assume': _bi_assume, '__verif_assert': _bi_assert,
    '__verif_observe': _bi_observe, '__verif_observe_str': _bi_observe_str,
    '__verif_observe_bytes': _bi_observe_bytes, '__verif_concretize': _bi_concretize,
    '__verif_reach': _bi_reach, '__verif_param': _bi_param,
    '_ZdlPv': _bi_noop,
}
