#!/usr/bin/env python3
"""C04 — the Python reference ZoneSpecifier and the C++ extended processor are observationally equal; the Python
result does not depend on its tuning options.

Same zone data on both sides: the TZ source reconstructed from the shipped zonedbx tables is compiled by the real
tzcompiler into Python tables (C03 shows the regenerated C++ tables coincide with the shipped ones).  Python side: the
real ZoneSpecifier executed by pysym - epoch_seconds is a symbolic integer, datetime.utcfromtimestamp is a stand-in that
case-splits on the UTC year (and Jan-1 for viewing_months < 14) as the code does, init_for_year runs concretely through the
real code, _find_transition_for_seconds forks on its comparisons.  C++ side: llsym leaves of the extended processor for
the same year.  Obligations (SMT over the symbolic instant): on the intersection of a Python leaf and a C++ leaf the
offset, DST offset and abbreviation coincide; the 8 option combinations yield the same step function."""
import sys
import os
import json
import time
import random
import traceback
import importlib
sys.path.insert(0, os.path.dirname(os.path.abspath(__file__)))
import common  # noqa: E402
import zones  # noqa: E402
import pipeline  # noqa: E402
from llsym import build  # noqa: E402
from spec import calendar as cal  # noqa: E402

YEARS = list(range(2000, 2050))
OPTIONS = [(vm, ip, oc) for vm in (14, 13) for ip in (True, False) for oc in (True, False)]
PYDIR = [None]
PYPKG = [None]


def _load_tables():
    sys.path.insert(0, os.path.join(build.REPO, 'tools'))
    sys.path.insert(0, PYDIR[0])
    zi = importlib.import_module(PYPKG[0] + '.zone_infos')
    return zi.ZONE_INFO_MAP


def python_leaves(zs_mod, pysym, zone_info, opts, year, lo, hi):
    """Explore get_timezone_info_for_seconds(t) for t in [lo, hi); returns [(a, b, total, dst, abbrev)] intervals."""
    import z3
    from pysym import SymInt
    vm, ip, oc = opts
    t = z3.Int('t')
    spec = zs_mod.ZoneSpecifier(zone_info, viewing_months=vm, in_place_transitions=ip, optimize_candidates=oc)
    jan1 = hi <= cal.epoch_seconds(year) + 86400

    class Ldt(object):
        def __init__(self):
            self.year = year
            self.month = 1
            self.day = 1 if jan1 else 2        # only "month == 1 and day == 1" is ever asked (checked by __getattr__)

        def __getattr__(self, k):
            raise AttributeError('stand-in datetime: unexpected attribute ' + k)

    real_dt = zs_mod.datetime

    class DT(real_dt):
        @classmethod
        def utcfromtimestamp(cls, x):
            if isinstance(x, SymInt):
                return Ldt()
            return real_dt.utcfromtimestamp(x)
    zs_mod.datetime = DT
    try:
        def run():
            info = spec.get_timezone_info_for_seconds(SymInt(t))
            return (info.total_offset, info.dst_offset, info.abbrev)
        paths = pysym.explore(run, assumptions=[t >= lo, t < hi])
    finally:
        zs_mod.datetime = real_dt
    out = []
    for p in paths:
        if p.exception is not None:
            out.append(('exc', repr(p.exception), p.pc))
            continue
        # the path condition is a conjunction of comparisons of t with constants: its solution set is an interval
        o = z3.Optimize()
        o.add(*p.pc)
        h1 = o.minimize(t)
        o.check()
        a = o.lower(h1).as_long()
        o = z3.Optimize()
        o.add(*p.pc)
        h2 = o.maximize(t)
        o.check()
        b = o.upper(h2).as_long() + 1
        # convexity guard: the interval must be exactly the path condition
        s = z3.Solver()
        s.add(t >= a, t < b, z3.Not(z3.And(p.pc)))
        if str(s.check()) != 'unsat':
            out.append(('exc', 'path condition is not an interval', p.pc))
            continue
        out.append((a, b) + tuple(p.result))
    return out


def run_zone(item):
    import z3
    t0 = time.time()
    zi, name = item['index'], item['zone']
    out = {'name': 'c04/%s' % name, 'zone': name, 'index': zi, 'py_paths': 0, 'cpp_leaves': 0, 'queries': 0, 'unsat': 0, 'sat': [],
           'unknown': 0, 'option_diffs': [], 'error': None, 'steps': 0, 'samples': [], 'functions': []}
    try:
        sys.path.insert(0, os.path.join(build.REPO, 'tools'))
        import pysym
        import zonedb.zone_specifier as zs_mod
        tables = _load_tables()
        zone_info = tables[name]
        mod = common._module()
        called = set()
        for year in item['years']:
            e0, e1 = cal.epoch_seconds(year), cal.epoch_seconds(year + 1)
            eng, leaves = zones.explore(mod, 'ext', zi, e0, e1, year)
            called |= eng.called
            ok_leaves = [lf for lf in leaves if lf.status == 'ok']
            out['cpp_leaves'] += len(ok_leaves)
            out['steps'] += sum(lf.steps for lf in leaves)
            for lf in leaves:
                if lf.status == 'defect':
                    out['sat'].append({'kind': 'cpp-defect', 'year': year, 'what': lf.defect['msg']})
            ref = None
            for opts in item['options']:
                segs = []
                for (lo, hi) in ((e0, e0 + 86400), (e0 + 86400, e1)):
                    segs.extend(python_leaves(zs_mod, pysym, zone_info, opts, year, lo, hi))
                out['py_paths'] += len(segs)
                exc = [s for s in segs if s[0] == 'exc']
                if exc:
                    out['sat'].append({'kind': 'python-exception', 'year': year, 'options': opts, 'what': exc[0][1]})
                    continue
                # merge adjacent equal segments into a canonical step function
                segs.sort()
                canon = []
                for sgm in segs:
                    if canon and canon[-1][2:] == sgm[2:] and canon[-1][1] == sgm[0]:
                        canon[-1] = (canon[-1][0], sgm[1]) + sgm[2:]
                    else:
                        canon.append(sgm)
                if canon[0][0] != e0 or canon[-1][1] != e1 or any(canon[k][1] != canon[k + 1][0] for k in range(len(canon) - 1)):
                    out['sat'].append({'kind': 'python-coverage', 'year': year, 'options': opts, 'what': 'leaves do not tile the year'})
                    continue
                if ref is None:
                    ref = (opts, canon)
                    # Python (first option set) vs C++ leaves
                    for lf in ok_leaves:
                        t = lf.nondet[0][1]
                        o = dict(lf.obs)
                        off, delta, abbrev = zones._i16(o['off']), zones._i16(o['delta']), o['abbrev']
                        s = z3.Solver()
                        s.set('timeout', 20000)
                        s.add(*lf.pc)
                        for (a, b, total, dst, ab) in canon:
                            diffs = [off * 60 != total if not isinstance(off, int) else z3.BoolVal(off * 60 != total),
                                     delta * 60 != dst if not isinstance(delta, int) else z3.BoolVal(delta * 60 != dst)]
                            if abbrev != ab.encode():
                                diffs.append(z3.BoolVal(True))
                            s.push()
                            s.add(t >= a, t < b, z3.Or(diffs))
                            r = str(s.check())
                            out['queries'] += 1
                            if r == 'unsat':
                                out['unsat'] += 1
                            elif r == 'sat':
                                tv = s.model().eval(t, model_completion=True).as_long()
                                tv = tv - (1 << 32) if tv >> 31 else tv
                                out['sat'].append({'kind': 'python-vs-cpp', 'year': year, 't': tv, 'python': [total, dst, ab], 'options': opts})
                            else:
                                out['unknown'] += 1
                            if len(out['samples']) < 1:
                                out['samples'].append({'zone': name, 'year': year, 'python_segment': [a, b, total, dst, ab],
                                                       'cpp_leaf_abbrev': abbrev.decode('latin1'), 'result': r})
                            s.pop()
                elif canon != ref[1]:
                    out['option_diffs'].append({'year': year, 'options': [list(ref[0]), list(opts)],
                                                'first_difference': [x for x in zip(ref[1], canon) if x[0] != x[1]][:1]})
        out['functions'] = sorted(called)
    except Exception as e:  # noqa
        out['error'] = 'exception: %s\n%s' % (e, traceback.format_exc())
    out['wall'] = round(time.time() - t0, 2)
    return out


def main():
    a = common.parse_args('C04')
    thorough = a.tier == 'thorough'
    kc = common.KernelCheck(a, ['h_zone.cpp'], with_zonedb=True, with_zonedbx=True)
    kc.build()
    # same zone data for Python: compile the reconstructed source to Python tables with the real pipeline
    text = pipeline.reconstructed_source()
    indir, outdir = os.path.join(kc.wd, 'in_py'), os.path.join(kc.wd, 'out_py')
    pipeline.write_input_dir(text, indir)
    rc, log = pipeline.run_compiler(indir, outdir, 'extended', 'python', actions='zonedb')
    if rc != 0:
        kc.inconclusive.append('tzcompiler (python target) failed: ' + log[-300:])
        kc.finish({'explanation': 'setup failed', 'evaluations': 1, 'distinct_nontrivial': 2, 'states': 1, 'transitions': 1,
                   'traces_validated_against_impl': 0, 'samples': [{}]})
    pkg = 'c04tables'
    os.makedirs(os.path.join(outdir, pkg))
    for f in ('zone_infos.py', 'zone_policies.py'):
        os.replace(os.path.join(outdir, f), os.path.join(outdir, pkg, f))
    open(os.path.join(outdir, pkg, '__init__.py'), 'w').close()
    PYDIR[0], PYPKG[0] = outdir, pkg
    n_ext, n_bas = zones.registry_sizes(kc)
    names = zones.registry_names(kc, 'ext', n_ext)
    tables = _load_tables()
    missing = [n for n in names if n not in tables]
    if missing:
        kc.inconclusive.append('zones missing from the generated python tables: %s' % missing[:5])
    lem = kc.run_items([dict(name='year_lemma/%d' % y, year=y) for y in YEARS], jobs=16, fn=zones.run_year_lemma)
    zones.judge_lemmas(kc, lem)
    rnd = random.Random(a.seed)
    sel = list(range(n_ext))
    items = [dict(name='c04/%s' % names[i], index=i, zone=names[i], years=YEARS,
                  options=OPTIONS if thorough else [OPTIONS[0], OPTIONS[-1]]) for i in sel if names[i] in tables]
    res = kc.run_items(items, jobs=16, fn=run_zone)
    kc.results = []
    for r in res:
        if r['error']:
            kc.inconclusive.append('%s: %s' % (r['name'], r['error']))
            continue
        if r['unknown']:
            kc.inconclusive.append('%s: %d queries unknown' % (r['name'], r['unknown']))
        for s in r['sat']:
            if s['kind'] == 'python-vs-cpp':
                rc2, obs, err = zones.replay_query(kc, 'ext', r['index'], s['t'])
                got = (obs.get('off'), obs.get('delta'), obs.get('abbrev'))
                py = s['python']
                differs = rc2 == 0 and (got[0] is None or got[0] * 60 != py[0] or got[1] * 60 != py[1] or got[2] != py[2])
                kc._record('python-vs-cpp:%s:%d' % (r['zone'], s['year']),
                           'zone %s at epoch second %d: C++ (offset min, delta min, abbrev)=%s, Python ZoneSpecifier%s (total s, dst s, abbrev)=%s' % (
                               r['zone'], s['t'], got, tuple(s['options']), tuple(py)), differs, {'zone': r['zone'], 't': s['t']})
            else:
                kc._record('%s:%s:%s' % (s['kind'], r['zone'], s['year']), 'zone %s year %s: %s %s' % (r['zone'], s['year'], s['kind'], s.get('what')),
                           True, s)
        for d in r['option_diffs']:
            kc._record('python-options:%s:%d' % (r['zone'], d['year']), 'zone %s year %d: ZoneSpecifier results differ between option sets %s: %s' % (
                r['zone'], d['year'], d['options'], d['first_difference']), True, d)
    q = sum(r['queries'] for r in res)
    cov = {
        'states': max(1, sum(r['py_paths'] + r['cpp_leaves'] for r in res)), 'transitions': max(1, sum(r['steps'] for r in res)),
        'traces_validated_against_impl': 0, 'samples': [s for r in res[:3] for s in r['samples']] or [{'note': 'none'}],
        'evaluations': q, 'distinct_nontrivial': q,
        'rule': 'one query = (C++ leaf path condition) AND (t in one Python leaf interval) AND (offset / DST offset / abbreviation differ); '
                'Python leaf intervals come from pysym path conditions (min/max by the solver + convexity guard); the option sets are '
                'compared through their canonical step functions',
        'zones': len(res), 'years': [YEARS[0], YEARS[-1]], 'python_paths': sum(r['py_paths'] for r in res),
        'cpp_leaves': sum(r['cpp_leaves'] for r in res), 'queries_unsat': sum(r['unsat'] for r in res),
        'option_sets': 'all 8 (viewing_months 13/14 x in_place_transitions x optimize_candidates)' if thorough else 'default (14, in-place, optimized) and all-alternate (13, basic selector, basic finder)',
        'functions_encoded': {'python (pysym)': ['ZoneSpecifier.get_timezone_info_for_seconds', '_init_for_second', 'init_for_year (concrete per year class)',
                                                  '_find_transition_for_seconds', 'CandidateFinderBasic/Optimized', 'ActiveSelectorBasic/InPlace'],
                              'c++ (llsym)': sorted(set(f for r in res for f in r.get('functions', [])))[:60]},
        'bounds': {'t': 'every epoch second of 2000..2049 (symbolic), UTC year and Jan-1/rest case split', 'zones': '%d of %d zonedbx zones' % (len(res), n_ext)},
        'outside_bounds': ['local date-time selection (get_timezone_info_for_datetime vs findTransitionForDateTime) is not compared here',
                           'zones not drawn in the quick tier'],
    }
    kc.finish(cov, ['stub: datetime.utcfromtimestamp(symbolic) returns the year class chosen by the driver (year, is-Jan-1); any other use of the '
                    'stand-in raises', 'Python tables are generated by the real tzcompiler from the source reconstructed from the shipped zonedbx tables'])


if __name__ == '__main__':
    main()
