// C10 — zone lookup by name, id and index is exact and always terminates.
// The real ZoneRegistrar / ZoneManagerImpl templates, instantiated with a comparator over 4-byte keys
// (stored where the name string would be) that returns a *symbolic* value with the right sign and a
// magnitude in [1,127] - what byte-wise strcmp returns on ASCII names.
#include <AceTime.h>
#include "verif.h"
using namespace ace_time;

static int keycmp(const char* a, const char* b) {
  uint32_t ka, kb;
  memcpy(&ka, a, 4);
  memcpy(&kb, b, 4);
  if (ka == kb) return 0;
  int mag = __verif_nondet_u8("magnitude");
  __verif_assume(mag >= 1 && mag <= 127);
  return (ka < kb) ? -mag : mag;
}

typedef ZoneRegistrar<basic::ZoneInfo, basic::ZoneRegistryBroker, basic::ZoneInfoBroker, keycmp, keycmp> KeyRegistrar;

class KeyManager : public ZoneManagerImpl<basic::ZoneInfo, KeyRegistrar, BasicZoneProcessorCache<1>> {
  public:
    KeyManager(uint16_t n, const basic::ZoneInfo* const* reg)
        : ZoneManagerImpl<basic::ZoneInfo, KeyRegistrar, BasicZoneProcessorCache<1>>(n, reg) {}
};

static const int MAXN = 48;
struct Reg {
  uint32_t keys[MAXN + 1];          // 4-byte keys ("names")
  alignas(8) unsigned char infos[MAXN][sizeof(basic::ZoneInfo)];
  const basic::ZoneInfo* ptrs[MAXN];
};

// builds a registry object of exactly n entries (the pointer array handed to the registrar has n elements)
static const basic::ZoneInfo* const* build(Reg& r, const basic::ZoneInfo** exact, int n, bool sorted, uint32_t* ids) {
  for (int i = 0; i < n; i++) {
    r.keys[i] = __verif_nondet_u32("key");
    ids[i] = __verif_nondet_u32("id");
    if (i > 0) {
      if (sorted) {
        __verif_assume(r.keys[i - 1] < r.keys[i]);
      } else {
        for (int j = 0; j < i; j++) __verif_assume(r.keys[j] != r.keys[i]);
      }
    }
    basic::ZoneInfo zi = {(const char*) &r.keys[i], ids[i], nullptr, 0, 0, nullptr};
    memcpy(r.infos[i], &zi, sizeof(zi));
    exact[i] = (const basic::ZoneInfo*) r.infos[i];
  }
  return exact;
}

// a0 = n, a1 = 1 sorted / 0 unsorted (distinct keys)
#define REGISTRY(n, sorted) \
  Reg r; uint32_t ids[MAXN + 1]; \
  const basic::ZoneInfo* exact[(n) > 0 ? (n) : 1]; \
  const basic::ZoneInfo* const* reg = build(r, exact, (n), (sorted), ids);

template <int N>
static void byName(bool sorted) {
  REGISTRY(N, sorted)
  KeyRegistrar registrar(N, reg);
  __verif_assert(registrar.registrySize() == N, "registrySize");
  if (N > 0) __verif_assert(registrar.isSorted() == sorted || !sorted, "sorted registry is recognised as sorted");
  uint32_t q = __verif_nondet_u32("query");
  uint16_t idx = registrar.findIndexForName((const char*) &q);
  if (idx == KeyRegistrar::kInvalidIndex) {
    bool present = false;
    for (int j = 0; j < N; j++) present = present | (r.keys[j] == q);
    __verif_assert(!present, "not-found only when no entry has that name");
    __verif_assert(registrar.getZoneInfoForName((const char*) &q) == nullptr, "getZoneInfoForName -> nullptr");
  } else {
    __verif_assert(idx < N, "index within the registry");
    __verif_assert(idx < N && r.keys[idx] == q, "found entry has exactly that name");
    __verif_assert(idx < N && registrar.getZoneInfoForName((const char*) &q) == exact[idx], "getZoneInfoForName -> that entry");
  }
}

template <int N>
static void byIdIndex(bool sorted) {
  REGISTRY(N, sorted)
  KeyRegistrar registrar(N, reg);
  uint32_t id = __verif_nondet_u32("queryId");
  uint16_t idx = registrar.findIndexForId(id);
  if (idx == KeyRegistrar::kInvalidIndex) {
    bool present = false;
    for (int j = 0; j < N; j++) present = present | (ids[j] == id);
    __verif_assert(!present, "id not-found only when no entry has that id");
    __verif_assert(registrar.getZoneInfoForId(id) == nullptr, "getZoneInfoForId -> nullptr");
  } else {
    __verif_assert(idx < N && ids[idx] == id, "found entry has exactly that id");
    __verif_assert(idx < N && registrar.getZoneInfoForId(id) == exact[idx], "getZoneInfoForId -> that entry");
  }
  uint16_t i = __verif_nondet_u16("index");
  const basic::ZoneInfo* zi = registrar.getZoneInfoForIndex(i);
  if (i < N) {
    __verif_assert(zi == exact[i], "getZoneInfoForIndex -> entry i");
  } else {
    __verif_assert(zi == nullptr, "getZoneInfoForIndex out of range -> nullptr");
  }
}

template <int N>
static void manager(bool sorted) {
  REGISTRY(N, sorted)
  KeyManager mgr(N, reg);
  __verif_assert(mgr.registrySize() == N, "manager registrySize");
  uint32_t q = __verif_nondet_u32("query");
  TimeZone tz = mgr.createForZoneName((const char*) &q);
  uint16_t idx = mgr.indexForZoneName((const char*) &q);
  if (idx == ZoneManager::kInvalidIndex) {
    __verif_assert(tz.isError(), "manager: not-found -> error zone");
  } else {
    __verif_assert(!tz.isError() && tz.getType() == TimeZone::kTypeBasicManaged, "manager: found -> managed zone");
    __verif_assert(idx < N && tz.toTimeZoneData().zoneId == ids[idx], "manager: zone is exactly that entry");
    __verif_assert(idx < N && tz == mgr.createForZoneIndex(idx), "manager: same as createForZoneIndex");
  }
  uint32_t id = __verif_nondet_u32("queryId");
  TimeZone t2 = mgr.createForZoneId(id);
  uint16_t i2 = mgr.indexForZoneId(id);
  if (i2 == ZoneManager::kInvalidIndex) {
    __verif_assert(t2.isError(), "manager: id not-found -> error zone");
  } else {
    __verif_assert(i2 < N && !t2.isError() && t2.toTimeZoneData().zoneId == id, "manager: id found -> that zone");
  }
  uint16_t i3 = __verif_nondet_u16("index");
  TimeZone t3 = mgr.createForZoneIndex(i3);
  __verif_assert(t3.isError() == (i3 >= N), "manager: index out of range <=> error zone");
}

#define CASES(F) \
  switch (a0) { \
    case 0: F<0>(a1); break; case 1: F<1>(a1); break; case 2: F<2>(a1); break; case 3: F<3>(a1); break; \
    case 4: F<4>(a1); break; case 5: F<5>(a1); break; case 6: F<6>(a1); break; case 7: F<7>(a1); break; \
    case 8: F<8>(a1); break; case 9: F<9>(a1); break; case 10: F<10>(a1); break; case 11: F<11>(a1); break; \
    case 12: F<12>(a1); break; case 13: F<13>(a1); break; case 14: F<14>(a1); break; case 15: F<15>(a1); break; \
    case 16: F<16>(a1); break; case 17: F<17>(a1); break; case 18: F<18>(a1); break; case 19: F<19>(a1); break; \
    case 20: F<20>(a1); break; case 24: F<24>(a1); break; case 28: F<28>(a1); break; case 32: F<32>(a1); break; \
    case 33: F<33>(a1); break; case 40: F<40>(a1); break; \
    default: __verif_assert(false, "unsupported registry size"); }

ENTRY(c10_by_name) { CASES(byName) }
ENTRY(c10_by_id_index) { CASES(byIdIndex) }
ENTRY(c10_manager) { CASES(manager) }

// the shipped registries with the real strcmp: every present name is found at its own index
ENTRY(c10_shipped_basic) {
  BasicZoneRegistrar reg(zonedb::kZoneRegistrySize, zonedb::kZoneRegistry);
  __verif_assert(reg.isSorted(), "zonedb registry is sorted");
  const basic::ZoneInfo* zi = zonedb::kZoneRegistry[a0];
  __verif_assert(reg.findIndexForName(basic::ZoneInfoBroker(zi).name()) == (uint16_t) a0, "present name found at its index");
  __verif_assert(reg.findIndexForId(basic::ZoneInfoBroker(zi).zoneId()) == (uint16_t) a0, "present id found at its index");
}
ENTRY(c10_shipped_extended) {
  ExtendedZoneRegistrar reg(zonedbx::kZoneRegistrySize, zonedbx::kZoneRegistry);
  __verif_assert(reg.isSorted(), "zonedbx registry is sorted");
  const extended::ZoneInfo* zi = zonedbx::kZoneRegistry[a0];
  __verif_assert(reg.findIndexForName(extended::ZoneInfoBroker(zi).name()) == (uint16_t) a0, "present name found at its index");
  __verif_assert(reg.findIndexForId(extended::ZoneInfoBroker(zi).zoneId()) == (uint16_t) a0, "present id found at its index");
}
