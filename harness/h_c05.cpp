// C05 — instant <-> (offset|zoned) date-time round trip; conversions keep the instant; compareTo orders by instant.
#include <AceTime.h>
#include "verif.h"
using namespace ace_time;

static bool representable(int64_t v) { return v > INT32_MIN && v <= INT32_MAX; }

// t in [a0,a1], offset minutes |o| <= a2:  OffsetDateTime round trip, Unix variants, fields (Python side)
ENTRY(c05_odt_roundtrip) {
  int32_t t = __verif_nondet_i32("t");
  int16_t o = __verif_nondet_i16("offset");
  __verif_assume(t >= (int32_t) a0 && t <= (int32_t) a1 && t != LocalDate::kInvalidEpochSeconds);
  __verif_assume(o >= -(int16_t) a2 && o <= (int16_t) a2);
  // documented range: the local date-time t + 60*o must itself be representable
  __verif_assume(representable((int64_t) t + 60 * (int64_t) o));
  TimeOffset off = TimeOffset::forMinutes(o);
  OffsetDateTime odt = OffsetDateTime::forEpochSeconds(t, off);
  __verif_observe("yearTiny", odt.yearTiny());
  __verif_observe("month", odt.month());
  __verif_observe("day", odt.day());
  __verif_observe("hour", odt.hour());
  __verif_observe("minute", odt.minute());
  __verif_observe("second", odt.second());
  __verif_assert(!odt.isError(), "not-error");
  __verif_assert(odt.timeOffset().toMinutes() == o, "keeps the offset");
  __verif_assert(odt.toEpochSeconds() == t, "OffsetDateTime: toEpochSeconds(forEpochSeconds(t,o))==t");
  if (representable((int64_t) t + 946684800)) {
    __verif_assert(odt.toUnixSeconds() == t + 946684800, "toUnixSeconds()-toEpochSeconds()==946684800");
    OffsetDateTime viaUnix = OffsetDateTime::forUnixSeconds(t + 946684800, off);
    __verif_assert(!viaUnix.isError() && viaUnix.toEpochSeconds() == t && viaUnix.timeOffset().toMinutes() == o,
        "forUnixSeconds(t+946684800) denotes the instant t");
  }
}

// conversion to another offset keeps the instant
ENTRY(c05_odt_convert) {
  int32_t t = __verif_nondet_i32("t");
  int16_t o = __verif_nondet_i16("offset");
  int16_t o2 = __verif_nondet_i16("offset2");
  __verif_assume(t >= (int32_t) a0 && t <= (int32_t) a1 && t != LocalDate::kInvalidEpochSeconds);
  __verif_assume(o >= -(int16_t) a2 && o <= (int16_t) a2 && o2 >= -(int16_t) a2 && o2 <= (int16_t) a2);
  __verif_assume(representable((int64_t) t + 60 * (int64_t) o) && representable((int64_t) t + 60 * (int64_t) o2));
  OffsetDateTime odt = OffsetDateTime::forEpochSeconds(t, TimeOffset::forMinutes(o));
  // lemma (c05_odt_roundtrip, same run): the round trip holds for (t, o)
  __verif_assume(!odt.isError() && odt.toEpochSeconds() == t);
  OffsetDateTime conv = odt.convertToTimeOffset(TimeOffset::forMinutes(o2));
  __verif_assert(!conv.isError(), "converted not-error");
  __verif_assert(conv.timeOffset().toMinutes() == o2, "converted has the target offset");
  __verif_assert(conv.toEpochSeconds() == t, "convertToTimeOffset keeps the epoch seconds");
  __verif_assert(conv.compareTo(odt) == 0, "converted compares equal by instant");
}

// compareTo orders by instant
ENTRY(c05_odt_compare) {
  int32_t t1 = __verif_nondet_i32("t1"), t2 = __verif_nondet_i32("t2");
  int16_t o1 = __verif_nondet_i16("o1"), o2 = __verif_nondet_i16("o2");
  __verif_assume(t1 >= (int32_t) a0 && t1 <= (int32_t) a1 && t2 >= (int32_t) a0 && t2 <= (int32_t) a1);
  __verif_assume(o1 >= -(int16_t) a2 && o1 <= (int16_t) a2 && o2 >= -(int16_t) a2 && o2 <= (int16_t) a2);
  __verif_assume(representable((int64_t) t1 + 60 * (int64_t) o1) && representable((int64_t) t2 + 60 * (int64_t) o2));
  OffsetDateTime a = OffsetDateTime::forEpochSeconds(t1, TimeOffset::forMinutes(o1));
  OffsetDateTime b = OffsetDateTime::forEpochSeconds(t2, TimeOffset::forMinutes(o2));
  // lemma (c05_odt_roundtrip, same run) for both operands
  __verif_assume(!a.isError() && a.toEpochSeconds() == t1 && !b.isError() && b.toEpochSeconds() == t2);
  int8_t c = a.compareTo(b);
  int8_t want = (t1 < t2) ? -1 : ((t1 == t2) ? 0 : 1);
  __verif_assert(c == want, "OffsetDateTime::compareTo orders by instant");
}

// manual zones: std, dst symbolic
ENTRY(c05_zdt_manual) {
  int32_t t = __verif_nondet_i32("t");
  int16_t sd = __verif_nondet_i16("std"), ds = __verif_nondet_i16("dst");
  int16_t sd2 = __verif_nondet_i16("std2"), ds2 = __verif_nondet_i16("dst2");
  __verif_assume(t >= (int32_t) a0 && t <= (int32_t) a1 && t != LocalDate::kInvalidEpochSeconds);
  __verif_assume(sd >= -840 && sd <= 840 && ds >= -120 && ds <= 120 && sd2 >= -840 && sd2 <= 840 && ds2 >= -120 && ds2 <= 120);
  __verif_assume(representable((int64_t) t + 60 * ((int64_t) sd + ds)) && representable((int64_t) t + 60 * ((int64_t) sd2 + ds2)));
  TimeZone tz = TimeZone::forTimeOffset(TimeOffset::forMinutes(sd), TimeOffset::forMinutes(ds));
  ZonedDateTime z = ZonedDateTime::forEpochSeconds(t, tz);
  __verif_assert(!z.isError(), "zoned not-error");
  __verif_assert(z.timeOffset().toMinutes() == sd + ds, "manual zone offset is std+dst");
  __verif_assert(z.toEpochSeconds() == t, "ZonedDateTime: toEpochSeconds(forEpochSeconds(t,tz))==t");
  if (representable((int64_t) t + 946684800)) {
    __verif_assert(z.toUnixSeconds() == t + 946684800, "zoned unix difference");
    __verif_assert(ZonedDateTime::forUnixSeconds(t + 946684800, tz).toEpochSeconds() == t, "zoned forUnixSeconds");
  }
  TimeZone tz2 = TimeZone::forTimeOffset(TimeOffset::forMinutes(sd2), TimeOffset::forMinutes(ds2));
  ZonedDateTime w = z.convertToTimeZone(tz2);
  __verif_assert(!w.isError() && w.toEpochSeconds() == t, "convertToTimeZone keeps the epoch seconds");
  __verif_assert(w.timeOffset().toMinutes() == sd2 + ds2, "converted zone offset");
  __verif_assert(w.compareTo(z) == 0, "converted compares equal by instant");
  __verif_assert(ZonedDateTime::forEpochSeconds(LocalDate::kInvalidEpochSeconds, tz).isError(), "sentinel -> error");
}
