// C06 — calendar and epoch arithmetic kernels, fully symbolic.
#include <AceTime.h>
#include "verif.h"
using namespace ace_time;

// valid date (yearTiny, month, day) with yearTiny in [a0, a1]: epoch days vs spec (Python side),
// round trip, day of week (Python side)
ENTRY(c06_date_to_days) {
  int8_t yt = __verif_nondet_i8("yearTiny");
  uint8_t m = __verif_nondet_u8("month");
  uint8_t d = __verif_nondet_u8("day");
  __verif_assume(yt >= (int8_t) a0 && yt <= (int8_t) a1 && yt != LocalDate::kInvalidYearTiny);
  __verif_assume(m >= 1 && m <= 12 && d >= 1);
  if (a2) __verif_assume(m == (uint8_t) a2);   // month case split chosen by the driver
  uint8_t dim = LocalDate::daysInMonth(yt + 2000, m);
  __verif_assume(d <= dim);
  LocalDate ld = LocalDate::forTinyComponents(yt, m, d);
  acetime_t days = ld.toEpochDays();
  __verif_observe("dim", dim);
  __verif_observe("days", days);
  __verif_observe("dow", ld.dayOfWeek());
  LocalDate back = LocalDate::forEpochDays(days);
  // non-short-circuit comparisons: one obligation, no forks on the (heavy) field terms
  __verif_assert((back.yearTiny() == yt) & (back.month() == m) & (back.day() == d), "forEpochDays(toEpochDays(x))==x");
  __verif_assert(ld.toUnixDays() == days + 10957, "unixDays");
  LocalDate viaYear = LocalDate::forComponents(yt + 2000, m, d);
  __verif_assert((viaYear.yearTiny() == yt) & (viaYear.month() == m) & (viaYear.day() == d), "forComponents==forTinyComponents");
  __verif_assert(!ld.isError(), "valid-not-error");
  __verif_assert(back == ld, "operator==");
}

// days in [a0, a1): forEpochDays gives valid fields, toEpochDays inverts it
ENTRY(c06_days_to_date) {
  int32_t days = __verif_nondet_i32("days");
  __verif_assume(days >= (int32_t) a0 && days < (int32_t) a1);
  LocalDate ld = LocalDate::forEpochDays(days);
  __verif_assert(!ld.isError(), "not-error");
  __verif_observe("yearTiny", ld.yearTiny());
  __verif_observe("month", ld.month());
  __verif_observe("day", ld.day());
  __verif_assert(ld.toEpochDays() == days, "toEpochDays(forEpochDays(n))==n");
}

// isLeapYear / daysInMonth over the whole int16 year range (Python side compares with spec)
ENTRY(c06_leap_dim) {
  int16_t y = __verif_nondet_i16("year");
  uint8_t m = __verif_nondet_u8("month");
  __verif_assume(m >= 1 && m <= 12);
  __verif_observe("leap", LocalDate::isLeapYear(y));
  __verif_observe("dim", LocalDate::daysInMonth(y, m));
}

// increment / decrement one day; yearTiny in [a0,a1]
ENTRY(c06_inc_dec) {
  int8_t yt = __verif_nondet_i8("yearTiny");
  uint8_t m = __verif_nondet_u8("month");
  uint8_t d = __verif_nondet_u8("day");
  __verif_assume(yt >= (int8_t) a0 && yt <= (int8_t) a1 && yt != LocalDate::kInvalidYearTiny);
  if (a2) __verif_assume(m == (uint8_t) a2);
  __verif_assume(m >= 1 && m <= 12 && d >= 1 && d <= LocalDate::daysInMonth(yt + 2000, m));
  LocalDate x = LocalDate::forTinyComponents(yt, m, d);
  acetime_t n = x.toEpochDays();
  LocalDate up = x;
  local_date_mutation::incrementOneDay(up);
  bool last = (yt == 127 && m == 12 && d == 31);
  if (last) {
    __verif_assert(up.isError(), "inc-past-end-is-error");
  } else {
    __verif_assert(!up.isError(), "inc-valid");
    __verif_assert(up.day() >= 1 && up.day() <= LocalDate::daysInMonth(up.year(), up.month()), "inc-day-in-month");
    __verif_assert(up.toEpochDays() == n + 1, "inc==days+1");
    LocalDate backdown = up;
    local_date_mutation::decrementOneDay(backdown);
    __verif_assert(backdown == x, "dec(inc(x))==x");
  }
  LocalDate down = x;
  local_date_mutation::decrementOneDay(down);
  bool first = (yt == -127 && m == 1 && d == 1);
  if (first) {
    __verif_assert(down.isError(), "dec-past-start-is-error");
  } else {
    __verif_assert(!down.isError(), "dec-valid");
    __verif_assert(down.day() >= 1 && down.day() <= LocalDate::daysInMonth(down.year(), down.month()), "dec-day-in-month");
    __verif_assert(down.toEpochDays() == n - 1, "dec==days-1");
    LocalDate backup = down;
    local_date_mutation::incrementOneDay(backup);
    __verif_assert(backup == x, "inc(dec(x))==x");
  }
}

// epoch seconds t in [a0, a1]: fields valid (calendar spec, Python side), round trip, LocalDate agreement.
// Together with c06_date_to_days (toEpochDays == spec on every valid date) and c06_local_time
// (toSeconds == h*3600+m*60+s) this gives: forEpochSeconds(t) is the calendar date-time of instant t.
ENTRY(c06_seconds_roundtrip) {
  int32_t t = __verif_nondet_i32("t");
  __verif_assume(t >= (int32_t) a0 && t <= (int32_t) a1 && t != LocalDate::kInvalidEpochSeconds);
  LocalDateTime ldt = LocalDateTime::forEpochSeconds(t);
  __verif_observe("yearTiny", ldt.yearTiny());
  __verif_observe("month", ldt.month());
  __verif_observe("day", ldt.day());
  __verif_observe("hour", ldt.hour());
  __verif_observe("minute", ldt.minute());
  __verif_observe("second", ldt.second());
  __verif_assert((ldt.yearTiny() != -128) & (ldt.month() >= 1) & (ldt.month() <= 12) & (ldt.day() >= 1)
      & (ldt.day() <= 31) & (ldt.hour() < 24) & (ldt.minute() < 60) & (ldt.second() < 60), "fields-in-range");
  __verif_assert(!ldt.isError(), "not-error");
  __verif_assert(ldt.toEpochSeconds() == t, "toEpochSeconds(forEpochSeconds(t))==t");
  LocalDate ld = LocalDate::forEpochSeconds(t);
  __verif_assert((ld.yearTiny() == ldt.yearTiny()) & (ld.month() == ldt.month()) & (ld.day() == ldt.day()),
      "LocalDate::forEpochSeconds agrees");
}

// unix seconds u in [a0,a1]
ENTRY(c06_unix_roundtrip) {
  int32_t u = __verif_nondet_i32("u");
  __verif_assume(u >= (int32_t) a0 && u <= (int32_t) a1 && u != LocalDate::kInvalidEpochSeconds);
  LocalDateTime ldt = LocalDateTime::forUnixSeconds(u);
  __verif_assert(!ldt.isError(), "not-error");
  __verif_assert(ldt.toUnixSeconds() == u, "toUnixSeconds(forUnixSeconds(u))==u");
  __verif_assert(ldt.toEpochSeconds() == u - 946684800, "unix-epoch-difference");
}

// all (h,m,s) byte triples: isError <=> outside 00:00:00..23:59:59 (+24:00:00), seconds round trip
ENTRY(c06_local_time) {
  uint8_t h = __verif_nondet_u8("h");
  uint8_t mi = __verif_nondet_u8("mi");
  uint8_t s = __verif_nondet_u8("s");
  LocalTime lt = LocalTime::forComponents(h, mi, s);
  bool valid = (h < 24 && mi < 60 && s < 60) || (h == 24 && mi == 0 && s == 0);
  __verif_assert(lt.isError() == !valid, "isError<=>invalid");
  if (valid) {
    acetime_t secs = lt.toSeconds();
    __verif_assert(secs == (int32_t) h * 3600 + (int32_t) mi * 60 + s, "toSeconds");
    if (h < 24) {
      LocalTime back = LocalTime::forSeconds(secs);
      __verif_assert(back == lt, "forSeconds(toSeconds(x))==x");
    }
  } else {
    __verif_assert(lt.toSeconds() == LocalTime::kInvalidSeconds, "invalid-toSeconds-sentinel");
  }
}

// seconds of day 0..86399 -> LocalTime
ENTRY(c06_time_for_seconds) {
  int32_t s = __verif_nondet_i32("s");
  __verif_assume(s >= 0 && s < 86400);
  LocalTime lt = LocalTime::forSeconds(s);
  __verif_assert(!lt.isError(), "valid");
  __verif_assert(lt.hour() < 24 && lt.minute() < 60 && lt.second() < 60, "fields");
  __verif_assert(lt.toSeconds() == s, "toSeconds(forSeconds(s))==s");
  __verif_assert(LocalTime::forSeconds(LocalTime::kInvalidSeconds).isError(), "sentinel-is-error");
}

// all date byte triples: isError() <=> documented weak validity; error -> sentinels
ENTRY(c06_date_iserror) {
  int8_t yt = __verif_nondet_i8("yearTiny");
  uint8_t m = __verif_nondet_u8("month");
  uint8_t d = __verif_nondet_u8("day");
  LocalDate ld = LocalDate::forTinyComponents(yt, m, d);
  bool ok = yt != -128 && m >= 1 && m <= 12 && d >= 1 && d <= 31;
  __verif_assert(ld.isError() == !ok, "isError<=>documented-invalid");
  if (!ok) {
    __verif_assert(ld.toEpochDays() == LocalDate::kInvalidEpochDays, "error-toEpochDays");
    __verif_assert(ld.toEpochSeconds() == LocalDate::kInvalidEpochSeconds, "error-toEpochSeconds");
    __verif_assert(ld.toUnixDays() == LocalDate::kInvalidEpochDays, "error-toUnixDays");
  }
  int16_t y = __verif_nondet_i16("year");
  LocalDate l2 = LocalDate::forComponents(y, m, d);
  bool yok = y >= 1873 && y <= 2127;
  __verif_assert((l2.yearTiny() == -128) == !yok, "year-out-of-range-is-error");
  if (yok) __verif_assert(l2.year() == y, "year-kept");
  __verif_assert(LocalDate::forEpochDays(LocalDate::kInvalidEpochDays).isError(), "sentinel-days");
  __verif_assert(LocalDate::forEpochSeconds(LocalDate::kInvalidEpochSeconds).isError(), "sentinel-seconds");
  __verif_assert(LocalDateTime::forEpochSeconds(LocalDate::kInvalidEpochSeconds).isError(), "sentinel-ldt");
}

// contract obligation for LocalDateTime::toEpochSeconds(): symbolic valid fields (month a0 as driver case split),
// value compared with the calendar spec on the Python side; precondition: the value is representable
ENTRY(c06_ldt_to_seconds) {
  int8_t yt = __verif_nondet_i8("yearTiny");
  uint8_t m = __verif_nondet_u8("month"), d = __verif_nondet_u8("day");
  uint8_t h = __verif_nondet_u8("hour"), mi = __verif_nondet_u8("minute"), s = __verif_nondet_u8("second");
  __verif_assume(yt != -128 && m == (uint8_t) a0 && d >= 1 && d <= LocalDate::daysInMonth(yt + 2000, m));
  __verif_assume(h < 24 && mi < 60 && s < 60);
  // representable range of acetime_t: 1931-12-13T20:45:53 .. 2068-01-19T03:14:07 (assumed through the year here,
  // exactly on the Python side)
  __verif_assume(yt >= -69 && yt <= 68);
  LocalDateTime ldt = LocalDateTime::forTinyComponents(yt, m, d, h, mi, s);
  // the value must be representable in acetime_t (documented range); toEpochDays() is the c06_date_to_days lemma
  int64_t total = (int64_t) ldt.localDate().toEpochDays() * 86400 + (int64_t) h * 3600 + (int64_t) mi * 60 + s;
  __verif_assume(total > INT32_MIN && total <= INT32_MAX);
  __verif_observe("secs", ldt.toEpochSeconds());
}
