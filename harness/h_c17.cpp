// C17 — TimePeriod, TimeOffset and the mutation helpers, fully symbolic.
#include <AceTime.h>
#include "verif.h"
using namespace ace_time;

ENTRY(c17_period_seconds) {
  int32_t s = __verif_nondet_i32("s");
  __verif_assume(s >= -921599 && s <= 921599);
  TimePeriod p(s);
  __verif_assert((p.minute() < 60) & (p.second() < 60), "minute,second<60");
  __verif_assert(p.toSeconds() == s, "TimePeriod(s).toSeconds()==s");
  __verif_assert((p.sign() == 1) | (p.sign() == -1), "sign is +-1");
  __verif_assert((p.sign() == -1) == (s < 0), "sign matches");
  int32_t mag = s < 0 ? -s : s;
  __verif_assert((int32_t) p.hour() * 3600 + (int32_t) p.minute() * 60 + p.second() == mag, "h:m:s decomposes |s|");
}

ENTRY(c17_period_compare) {
  int32_t s1 = __verif_nondet_i32("s1");
  int32_t s2 = __verif_nondet_i32("s2");
  __verif_assume(s1 >= -921599 && s1 <= 921599 && s2 >= -921599 && s2 <= 921599);
  TimePeriod p1(s1), p2(s2);
  // lemma TimePeriod(s).toSeconds()==s for every s in the range: obligation of c17_period_seconds (same run)
  __verif_assume(p1.toSeconds() == s1 && p2.toSeconds() == s2);
  int8_t c = p1.compareTo(p2);
  int8_t want = (s1 < s2) ? -1 : ((s1 == s2) ? 0 : 1);
  __verif_assert(c == want, "compareTo orders by signed length");
  __verif_assert((p1 == p2) == (s1 == s2), "operator== iff same seconds");
}

// arbitrary field bytes: negate flips only the sign; compareTo by toSeconds for any fields
ENTRY(c17_period_fields) {
  uint8_t h = __verif_nondet_u8("h"), m = __verif_nondet_u8("m"), s = __verif_nondet_u8("s");
  int8_t sign = __verif_nondet_i8("sign");
  __verif_assume(sign == 1 || sign == -1);
  TimePeriod p(h, m, s, sign);
  int32_t before = p.toSeconds();
  __verif_assert(before == sign * ((int32_t) h * 3600 + (int32_t) m * 60 + s), "toSeconds formula");
  time_period_mutation::negate(p);
  __verif_assert((p.hour() == h) & (p.minute() == m) & (p.second() == s) & (p.sign() == -sign), "negate flips only the sign");
  __verif_assert(p.toSeconds() == -before, "negate negates seconds");
  time_period_mutation::negate(p);
  __verif_assert(p == TimePeriod(h, m, s, sign), "negate twice is identity");
}

ENTRY(c17_period_increments) {
  uint8_t h = __verif_nondet_u8("h"), m = __verif_nondet_u8("m"), s = __verif_nondet_u8("s");
  uint8_t limit = __verif_nondet_u8("limit");
  TimePeriod p(h, m, s, 1);
  time_period_mutation::incrementHour(p);
  __verif_assert(p.hour() < 24, "incrementHour stays in [0,24)");
  __verif_assert((h < 23) ? (p.hour() == h + 1) : (p.hour() == 0), "incrementHour is +1 mod 24 (saturating to 0 above)");
  __verif_assert((p.minute() == m) & (p.second() == s), "incrementHour touches only hour");
  TimePeriod q(h, m, s, 1);
  time_period_mutation::incrementMinute(q);
  __verif_assert(q.minute() < 60, "incrementMinute stays in [0,60)");
  __verif_assert((m < 59) ? (q.minute() == m + 1) : (q.minute() == 0), "incrementMinute is +1 mod 60");
  __verif_assert((q.hour() == h) & (q.second() == s), "incrementMinute touches only minute");
  __verif_assume(limit >= 1);
  TimePeriod r(h, m, s, 1);
  time_period_mutation::incrementHour(r, limit);
  __verif_assert(r.hour() < limit, "incrementHour(limit) stays below limit");
}

ENTRY(c17_offset_hour_minute) {
  int8_t h = __verif_nondet_i8("h"), m = __verif_nondet_i8("m");
  // sign-consistent parts, minute magnitude below 60 (the documented usage)
  __verif_assume(m > -60 && m < 60 && ((h >= 0 && m >= 0) || (h <= 0 && m <= 0)));
  TimeOffset o = TimeOffset::forHourMinute(h, m);
  __verif_assert(o.toMinutes() == (int16_t) h * 60 + m, "minutes == 60*h+m");
  int8_t hh, mm;
  o.toHourMinute(hh, mm);
  __verif_assert((hh == h) & (mm == m), "toHourMinute(forHourMinute(h,m))==(h,m)");
  __verif_assert(o.toSeconds() == (int32_t) 60 * o.toMinutes(), "seconds == 60*minutes");
  __verif_assert(!o.isError(), "not error");
  __verif_assert(TimeOffset::forHours(h).toMinutes() == (int16_t) h * 60, "forHours");
}

ENTRY(c17_offset_minutes) {
  int16_t x = __verif_nondet_i16("minutes");
  TimeOffset o = TimeOffset::forMinutes(x);
  __verif_assert(o.toMinutes() == x, "forMinutes/toMinutes");
  __verif_assert(o.toSeconds() == (int32_t) 60 * x, "seconds == 60*minutes (all int16)");
  __verif_assert(o.isError() == (x == INT16_MIN), "isError iff sentinel");
  __verif_assert(o.isZero() == (x == 0), "isZero");
  __verif_assert(TimeOffset::forError().isError(), "forError");
  int16_t y = __verif_nondet_i16("other");
  __verif_assert((o == TimeOffset::forMinutes(y)) == (x == y), "operator==");
}

ENTRY(c17_offset_increment15) {
  int16_t x = __verif_nondet_i16("minutes");
  __verif_assume(x >= -960 && x <= 960);
  TimeOffset o = TimeOffset::forMinutes(x);
  time_offset_mutation::increment15Minutes(o);
  int16_t y = o.toMinutes();
  __verif_assert(y >= -960 && y <= 960, "stays within -16:00..+16:00");
  __verif_assert((x > 945) ? (y == -960) : (y == x + 15), "+15, wrapping to -16:00 above +15:45");
  __verif_observe("y", y);
}

// the 15-minute grid cycles with period 129: concrete orbit from -16:00 (the step lemma above covers every start)
ENTRY(c17_offset_cycle) {
  TimeOffset o = TimeOffset::forMinutes(-960);
  int16_t prev = -960;
  for (int i = 0; i < 129; i++) {
    time_offset_mutation::increment15Minutes(o);
    if (i < 128) {
      __verif_assert(o.toMinutes() == prev + 15, "orbit step +15");
      __verif_assert(o.toMinutes() != -960, "no shorter cycle");
    }
    prev = o.toMinutes();
  }
  __verif_assert(o.toMinutes() == -960, "cycle of period 129");
  __verif_observe("final", o.toMinutes());
}

ENTRY(c17_zdt_increments) {
  int8_t yt = __verif_nondet_i8("yearTiny");
  uint8_t mo = __verif_nondet_u8("month"), d = __verif_nondet_u8("day"), h = __verif_nondet_u8("hour"),
      mi = __verif_nondet_u8("minute"), s = __verif_nondet_u8("second");
  ZonedDateTime z = ZonedDateTime::forComponents(2000, 1, 1, 0, 0, 0, TimeZone());
  z.yearTiny(yt); z.month(mo); z.day(d); z.hour(h); z.minute(mi); z.second(s);
  ZonedDateTime a = z;
  zoned_date_time_mutation::incrementYear(a);
  // documented contract: "within the interval [0, 99]" (a signed field: inputs outside it are outside the claim)
  __verif_assert((yt >= 0 && yt <= 99) ? (a.yearTiny() >= 0 && a.yearTiny() < 100) : true, "incrementYear stays in [2000,2100)");
  __verif_assert((yt >= 0 && yt < 99) ? (a.yearTiny() == yt + 1) : true, "incrementYear +1 inside");
  __verif_assert((yt == 99) ? (a.yearTiny() == 0) : true, "incrementYear 2099->2000");
  ZonedDateTime b = z;
  zoned_date_time_mutation::incrementMonth(b);
  __verif_assert(b.month() >= 1 && b.month() <= 12, "incrementMonth -> [1,12]");
  __verif_assert((mo >= 1 && mo < 12) ? (b.month() == mo + 1) : true, "incrementMonth +1 inside");
  __verif_assert((mo == 12) ? (b.month() == 1) : true, "incrementMonth 12->1");
  ZonedDateTime c = z;
  zoned_date_time_mutation::incrementDay(c);
  __verif_assert(c.day() >= 1 && c.day() <= 31, "incrementDay -> [1,31]");
  __verif_assert((d >= 1 && d < 31) ? (c.day() == d + 1) : true, "incrementDay +1 inside");
  __verif_assert((d == 31) ? (c.day() == 1) : true, "incrementDay 31->1");
  ZonedDateTime e = z;
  zoned_date_time_mutation::incrementHour(e);
  __verif_assert(e.hour() < 24, "incrementHour -> [0,23]");
  __verif_assert((h < 23) ? (e.hour() == h + 1) : (e.hour() == 0), "incrementHour +1 mod 24");
  ZonedDateTime f = z;
  zoned_date_time_mutation::incrementMinute(f);
  __verif_assert(f.minute() < 60, "incrementMinute -> [0,59]");
  __verif_assert((mi < 59) ? (f.minute() == mi + 1) : (f.minute() == 0), "incrementMinute +1 mod 60");
  __verif_assert((f.hour() == h) & (f.second() == s) & (f.day() == d) & (f.month() == mo) & (f.yearTiny() == yt), "other fields untouched");
}
