"""C18, Python half: tools/tzdb/transformer.calc_day_of_month and the admission filter of
_create_rules_with_on_day_expansion executed by pysym; compared with the calendar spec over integers."""
import sys
import os
import io
import time
import contextlib
import traceback
sys.path.insert(0, os.path.dirname(os.path.abspath(__file__)))
import common  # noqa: E402
import z3  # noqa: E402
from spec import calendar as cal  # noqa: E402


class _DateStandIn(object):
    """Proxy-aware stand-in for datetime.date inside tzdb.transformer: isoweekday() through the calendar spec; a day
    number beyond the month raises ValueError like CPython does."""

    def __init__(self, y, m, d):
        import pysym
        self.y, self.m, self.d = y, m, d
        if not isinstance(m, int):
            raise TypeError('month must be concrete here')
        yt = y.t if isinstance(y, pysym.SymInt) else z3.IntVal(y)
        dt = d.t if isinstance(d, pysym.SymInt) else z3.IntVal(d)
        ok = pysym.SymBool(z3.And(dt >= 1, dt <= cal.zi_dim(yt, m)))
        if not ok:
            raise ValueError('day is out of range for month')
        self._wd = pysym.SymInt(cal.zi_weekday(cal.zi_days(yt, m, dt)))

    def isoweekday(self):
        return self._wd


class _DatetimeStandIn(object):
    date = _DateStandIn


def spec_int(y, M, dow, dom, kind):
    """(month, day, other_year) of the calendar's answer, integer terms; dom absolute."""
    dim = cal.zi_dim(y, M)

    def wd(d):
        return cal.zi_weekday(cal.zi_days(y, M, d))
    if kind == 0:
        return z3.IntVal(M), dom, z3.BoolVal(False)
    if kind == 1:
        shift = (wd(dim) - dow + 7) % 7
        return z3.IntVal(M), dim - shift, z3.BoolVal(False)
    if kind == 2:
        shift = (dow - wd(dom) + 7) % 7
        day = dom + shift
        spill = day > dim
        return z3.If(spill, M + 1, M), z3.If(spill, day - dim, day), z3.And(spill, M == 12)
    shift = (wd(dom) - dow + 7) % 7
    day = dom - shift
    spill = day < 1
    pdim = cal.zi_dim(y, M - 1) if M > 1 else z3.IntVal(31)
    return z3.If(spill, M - 1, M), z3.If(spill, day + pdim, day), z3.And(spill, M == 1)


def worker(task):
    """month M, kind: pysym over calc_day_of_month and over the admission filter."""
    M, kind = task['month'], task['kind']
    out = {'name': 'py/month=%02d/kind=%d' % (M, kind), 'paths': 0, 'queries': 0, 'unsat': 0, 'sat': [], 'unknown': 0,
           'solver_time': 0.0, 'error': None, 'exceptions': {}, 'samples': []}
    try:
        sys.path.insert(0, os.path.join(common.build.REPO, 'tools'))
        import pysym
        from pysym import SymInt
        import tzdb.transformer as tr
        Int = z3.Int
        y, dow, dom = Int('year'), Int('dow'), Int('dom')
        base = [y >= 1873, y <= 2126]
        if kind == 0:
            base += [dow == 0, dom >= 1, dom <= 31]
        elif kind == 1:
            base += [dow >= 1, dow <= 7, dom == 0]
        elif kind == 2:
            base += [dow >= 1, dow <= 7, dom >= 1, dom <= 31]
        else:
            base += [dow >= 1, dow <= 7, dom <= -1, dom >= -31]
        adom = dom if kind != 3 else -dom

        def query(fs):
            t1 = time.time()
            s = z3.Solver()
            s.set('timeout', 120000)
            s.add(*fs)
            r = str(s.check())
            out['solver_time'] += time.time() - t1
            out['queries'] += 1
            if r == 'sat':
                m = s.model()
                return r, dict((v, m.eval(Int(v), model_completion=True).as_long()) for v in ('year', 'dow', 'dom'))
            if r == 'unsat':
                out['unsat'] += 1
            else:
                out['unknown'] += 1
            return r, None

        # (1) admission: the real filter code with the parsed (dow, dom) symbolic
        real_parse = tr._parse_on_day_string
        real_dt = tr.datetime
        try:
            tr._parse_on_day_string = lambda s: (SymInt(dow), SymInt(dom))
            t = tr.Transformer.__new__(tr.Transformer)

            def run_filter():
                t.all_removed_policies = {}
                t.all_notable_policies = {}
                with contextlib.redirect_stdout(io.StringIO()), contextlib.redirect_stderr(io.StringIO()):
                    r = t._create_rules_with_on_day_expansion({'P': [{'onDay': 'x', 'inMonth': M}]})
                return 'P' in r
            fpaths = pysym.explore(run_filter, assumptions=base)
            admitted = z3.Or([z3.And(p.pc) for p in fpaths if p.exception is None and p.result]) if fpaths else z3.BoolVal(False)
            # (2) calc_day_of_month on symbolic year / weekday / day with the date stand-in
            tr.datetime = _DatetimeStandIn

            def run_calc():
                return tr.calc_day_of_month(SymInt(y), M, SymInt(dow), SymInt(dom))
            cpaths = pysym.explore(run_calc, assumptions=base)
        finally:
            tr._parse_on_day_string = real_parse
            tr.datetime = real_dt
        valid = z3.And(adom >= (1 if kind != 1 else 0), z3.Or(kind == 1, adom <= cal.zi_dim(y, M)))
        sm, sd, other = spec_int(y, M, dow, adom, kind)
        # filter completeness: an admitted, valid tuple never resolves into another year
        r, mdl = query(base + [admitted, valid, other])
        if r == 'sat':
            out['sat'].append(('admitted tuple resolves into another year', mdl))
        for p in cpaths:
            out['paths'] += 1
            if p.exception is not None:
                key = type(p.exception).__name__
                out['exceptions'][key] = out['exceptions'].get(key, 0) + 1
                # an exception on an admitted, valid tuple is a failure of the compiler
                r, mdl = query(p.pc + [admitted, valid])
                if r == 'sat':
                    out['sat'].append(('calc_day_of_month raises %s: %s' % (key, p.exception), mdl))
                continue
            pm, pd = p.result
            pm = pm.t if isinstance(pm, SymInt) else z3.IntVal(pm)
            pd = pd.t if isinstance(pd, SymInt) else z3.IntVal(pd)
            r, mdl = query(p.pc + [admitted, valid, z3.Not(other), z3.Or(pm != sm, pd != sd)])
            if r == 'sat':
                out['sat'].append(('python calc_day_of_month differs from the calendar', mdl))
            if not out['samples']:
                out['samples'].append({'month': M, 'kind': kind, 'python_result': [str(z3.simplify(pm))[:80], str(z3.simplify(pd))[:120]],
                                       'result': r})
    except Exception as e:  # noqa
        out['error'] = 'exception: %s\n%s' % (e, traceback.format_exc())
    return out


def concrete_confirm(mdl, M, kind, what):
    """Replay a counterexample on the real (unpatched) Python functions."""
    sys.path.insert(0, os.path.join(common.build.REPO, 'tools'))
    import tzdb.transformer as tr
    import c18
    year, dow, dom = mdl['year'], mdl['dow'], mdl['dom']
    want = c18.concrete_spec(year, M, dow, dom)
    if 'another year' in what:
        return want is not None and want[2]
    try:
        got = tr.calc_day_of_month(year, M, dow, dom)
    except Exception:
        return 'raises' in what
    return want is not None and (not want[2]) and tuple(got) != (want[0], want[1])
