#!/bin/sh
# usage: run_all.sh quick|thorough [ids...]  — runs the registered checks one after the other, prints a summary line each
TIER="$1"; shift
IDS="${@:-c01 c02 c03 c04 c05 c06 c07 c08 c09 c10 c11 c12 c13 c14 c15 c16 c17 c18 c20}"
cd /verif
for c in $IDS; do
  S=$(date +%s)
  python3-vt checks/$c.py --tier $TIER > /tmp/run_$c.$TIER.out 2>&1; RC=$?
  E=$(date +%s)
  echo "$c tier=$TIER exit=$RC wall=$((E-S))s $(grep -c '^VIOLATION' /tmp/run_$c.$TIER.out) violations $(grep -c '^INCONCLUSIVE' /tmp/run_$c.$TIER.out) inconclusive $(grep -c '^KNOWN' /tmp/run_$c.$TIER.out) known"
done
