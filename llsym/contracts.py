"""Function contracts for the calendar kernels.

A contract replaces a call to a leaf kernel by fresh result variables
constrained by the table-driven calendar specification (spec/calendar.py).
Every contract is exact (the spec determines the result uniquely), its
precondition becomes an obligation at each call site, and the contract itself
is an obligation discharged against the real IR by the C06 kernel lemmas:

  LocalDate::forEpochDays(n)   n in [D_LO, D_HI):  valid(y,m,d) and spec_days(y,m,d) == n   [c06_days_to_date]
  LocalDate::toEpochDays()     valid(y,m,d):       result == spec_days(y,m,d)               [c06_date_to_days]
  LocalTime::forSeconds(s)     0 <= s < 86400:     h<24, mi<60, sec<60, 3600h+60mi+sec == s [c06_time_for_seconds]
  LocalTime::toSeconds()       h<24, mi<60, s<60:  result == 3600h+60mi+sec                 [c06_local_time]

With concrete arguments the real code is executed instead.
"""
import z3
from .loader import Ptr
from spec import calendar as cal

D_LO, D_HI = cal.days(1873, 1, 1), cal.days(2127, 12, 31) + 1

FOR_EPOCH_DAYS = '_ZN8ace_time9LocalDate12forEpochDaysEi'
TO_EPOCH_DAYS = '_ZNK8ace_time9LocalDate11toEpochDaysEv'
FOR_SECONDS = '_ZN8ace_time9LocalTime10forSecondsEi'
TO_SECONDS = '_ZNK8ace_time9LocalTime9toSecondsEv'


def _is_conc(v):
    return type(v) is int


def _pre(eng, st, cond, what):
    """Contract precondition: an obligation at the call site (and assumed afterwards)."""
    c = z3.simplify(cond)
    if z3.is_true(c):
        return
    st.obligations.append(('contract-pre', z3.Not(c), what, list(st.pc)))
    st.pc.append(c)
    st.user['contracts_used'] = st.user.get('contracts_used', 0) + 1


def for_epoch_days(eng, st, args):
    n = args[0]
    if _is_conc(n):
        return NotImplemented
    _pre(eng, st, z3.And(n >= D_LO, n < D_HI), 'LocalDate::forEpochDays argument within [%d,%d)' % (D_LO, D_HI))
    yt, m, d = eng.fresh('fed_yt', 8), eng.fresh('fed_m', 8), eng.fresh('fed_d', 8)
    st.pc.append(z3.And(cal.z3_valid_date(yt, m, d), cal.z3_days(yt, m, d) == n))
    st.user['contracts_used'] = st.user.get('contracts_used', 0) + 1
    return z3.Concat(d, m, yt)


def _fields(eng, st, p, names):
    out = []
    for k in range(3):
        out.append(eng.load(st, Ptr(p.obj, p.off + k), 1, 'i', 8))
    return out


def to_epoch_days(eng, st, args):
    yt, m, d = _fields(eng, st, args[0], 'ymd')
    if _is_conc(yt) and _is_conc(m) and _is_conc(d):
        return NotImplemented
    yt, m, d = [z3.BitVecVal(v, 8) if _is_conc(v) else v for v in (yt, m, d)]
    _pre(eng, st, cal.z3_valid_date(yt, m, d), 'LocalDate::toEpochDays on a valid calendar date')
    return cal.z3_days(yt, m, d)


def for_seconds(eng, st, args):
    s = args[0]
    if _is_conc(s):
        return NotImplemented
    _pre(eng, st, z3.And(s >= 0, s < 86400), 'LocalTime::forSeconds argument within [0,86400)')
    h, mi, sec = eng.fresh('fs_h', 8), eng.fresh('fs_mi', 8), eng.fresh('fs_s', 8)
    st.pc.append(z3.And(z3.ULT(h, 24), z3.ULT(mi, 60), z3.ULT(sec, 60),
                        z3.ZeroExt(24, h) * 3600 + z3.ZeroExt(24, mi) * 60 + z3.ZeroExt(24, sec) == s))
    return z3.Concat(sec, mi, h)


def to_seconds(eng, st, args):
    h, mi, sec = _fields(eng, st, args[0], 'hms')
    if _is_conc(h) and _is_conc(mi) and _is_conc(sec):
        return NotImplemented
    h, mi, sec = [z3.BitVecVal(v, 8) if _is_conc(v) else v for v in (h, mi, sec)]
    _pre(eng, st, z3.And(z3.ULT(h, 24), z3.ULT(mi, 60), z3.ULT(sec, 60)), 'LocalTime::toSeconds on a valid time')
    return z3.ZeroExt(24, h) * 3600 + z3.ZeroExt(24, mi) * 60 + z3.ZeroExt(24, sec)


CALENDAR = {FOR_EPOCH_DAYS: for_epoch_days, TO_EPOCH_DAYS: to_epoch_days, FOR_SECONDS: for_seconds,
            TO_SECONDS: to_seconds}


def install(eng, which=None):
    for k, f in CALENDAR.items():
        if which is None or k in which:
            eng.intercepts[k] = f
    return sorted(eng.intercepts)


# ---- year-specific contract for LocalDate::forEpochSeconds ------------------------------------------

LD_FOR_EPOCH_SECONDS = '_ZN8ace_time9LocalDate15forEpochSecondsEi'


def year_fields(t, year):
    """(yearTiny const, month(t), day(t)) for E(year) <= t < E(year+1), written without division:
    thresholds on t for the month starts and for the day starts inside a month."""
    e0 = cal.epoch_seconds(year)
    leap = cal.is_leap(year)
    m = z3.BitVecVal(12, 8)
    mstart = z3.BitVecVal((e0 + 86400 * cal.CUM[leap][12]) & 0xffffffff, 32)
    for k in range(11, 0, -1):
        lim = e0 + 86400 * cal.CUM[leap][k + 1]      # first second of month k+1
        c = t < lim
        m = z3.If(c, z3.BitVecVal(k, 8), m)
        mstart = z3.If(c, z3.BitVecVal((e0 + 86400 * cal.CUM[leap][k]) & 0xffffffff, 32), mstart)
    r = t - mstart                                    # seconds into the month, < 31*86400
    d = z3.BitVecVal(31, 8)
    for k in range(30, 0, -1):
        d = z3.If(z3.ULT(r, 86400 * k), z3.BitVecVal(k, 8), d)
    return (year - 2000) & 0xff, m, d


def year_fields_concrete(t, year):
    y, m, d = cal.civil(t // 86400)
    return (y - 2000) & 0xff, m, d


def year_contract(year, lo=None, hi=None):
    """Intercept for LocalDate::forEpochSeconds valid for t in [lo, hi) within [E(year), E(year+1)).
    Post-condition (lemma L_year, discharged on the real IR by the z_year_lemma harness in the same run):
      yearTiny == year-2000, 1<=month<=12, 1<=day<=31, (month==1 and day==1) <=> t < E(year)+86400.
    Month and day are fresh variables constrained by exactly that (the zone processors only test
    "is it January 1st"); when [lo,hi) lies on one side of E(year)+86400 the test is decided syntactically."""
    e0, e1 = cal.epoch_seconds(year), cal.epoch_seconds(year + 1)
    lo = e0 if lo is None else lo
    hi = e1 if hi is None else hi
    assert e0 <= lo < hi <= e1
    jan2 = e0 + 86400

    def f(eng, st, args):
        t = args[0]
        if _is_conc(t):
            return NotImplemented
        ck = ('ldfes', t.get_id())
        hit = st.user.get(ck)
        if hit is not None:          # same argument term: the same result (the function is pure)
            return hit[0]
        _pre(eng, st, z3.And(t >= lo, t < hi), 'LocalDate::forEpochSeconds argument within [%d,%d) of year %d' % (
            lo, hi, year))
        yt = z3.BitVecVal((year - 2000) & 0xff, 8)
        if hi <= jan2:
            r = z3.Concat(z3.BitVecVal(1, 8), z3.BitVecVal(1, 8), yt)
            st.user[ck] = (r, t)
            return r
        m, d = eng.fresh('ld_m', 8), eng.fresh('ld_d', 8)
        rng = z3.And(z3.UGE(m, 1), z3.ULE(m, 12), z3.UGE(d, 1), z3.ULE(d, 31))
        if lo >= jan2:
            st.pc.append(z3.And(rng, z3.Not(z3.And(m == 1, d == 1))))
        else:
            st.pc.append(z3.And(rng, z3.And(m == 1, d == 1) == (t < jan2)))
        r = z3.Concat(d, m, yt)
        st.user[ck] = (r, t)
        return r
    return f


def year_lemma_negation(t, yt, m, d, year):
    """Negation of lemma L_year over the observed fields of the real LocalDate::forEpochSeconds(t)."""
    jan2 = cal.epoch_seconds(year) + 86400
    ok = z3.And(yt == ((year - 2000) & 0xff), z3.UGE(m, 1), z3.ULE(m, 12), z3.UGE(d, 1), z3.ULE(d, 31),
                z3.And(m == 1, d == 1) == (t < jan2))
    return z3.Not(ok)


# ---- LocalDateTime-level contracts (obligations: C06 c06_seconds_roundtrip 'spec' and c06_ldt_to_seconds) ----------

LDT_FOR_EPOCH_SECONDS = '_ZN8ace_time13LocalDateTime15forEpochSecondsEi'
LDT_TO_EPOCH_SECONDS = '_ZNK8ace_time13LocalDateTime14toEpochSecondsEv'


# In the LocalDateTime-level contracts the calendar specification appears as two *uninterpreted* symbols
# (day count and date validity).  Knowing less about them than the table-driven spec can only make an
# obligation harder to discharge, never unsound; the C06 lemmas (c06_seconds_roundtrip 'spec',
# c06_ldt_to_seconds) establish the contracts for the concrete spec, which is one interpretation.
_BV8 = z3.BitVecSort(8)
SPEC_DAYS = z3.Function('SPEC_DAYS', _BV8, _BV8, _BV8, z3.BitVecSort(32))
SPEC_VALID = z3.Function('SPEC_VALID', _BV8, _BV8, _BV8, z3.BoolSort())


def _spec_seconds64(yt, m, d, h, mi, s):
    return (z3.SignExt(32, SPEC_DAYS(yt, m, d)) * 86400 + z3.ZeroExt(56, h) * 3600 + z3.ZeroExt(56, mi) * 60
            + z3.ZeroExt(56, s))


def ldt_for_epoch_seconds(eng, st, args):
    """LocalDateTime::forEpochSeconds(x), x != sentinel: the unique valid field tuple whose calendar value is x."""
    x = args[0]
    if _is_conc(x):
        return NotImplemented
    ck = ('ldtfes', x.get_id())
    hit = st.user.get(ck)
    if hit is not None:
        return hit[0]
    _pre(eng, st, x != z3.BitVecVal(0x80000000, 32), 'LocalDateTime::forEpochSeconds argument is not the sentinel')
    f = [eng.fresh('ldt_' + n, 8) for n in ('yt', 'm', 'd', 'h', 'mi', 's')]
    yt, m, d, h, mi, s = f
    st.pc.append(z3.And(SPEC_VALID(yt, m, d), yt != 0x80, z3.UGE(m, 1), z3.ULE(m, 12), z3.UGE(d, 1), z3.ULE(d, 31),
                        z3.ULT(h, 24), z3.ULT(mi, 60), z3.ULT(s, 60),
                        _spec_seconds64(yt, m, d, h, mi, s) == z3.SignExt(32, x)))
    r = z3.Concat(s, mi, h, d, m, yt)
    st.user[ck] = (r, x)
    st.user.setdefault('ldt_fresh', set()).update(v.get_id() for v in f)
    st.user.setdefault('ldt_keep', []).extend(f)
    st.user['contracts_used'] = st.user.get('contracts_used', 0) + 1
    return r


def ldt_to_epoch_seconds(eng, st, args):
    p = args[0]
    f = [eng.load(st, Ptr(p.obj, p.off + k), 1, 'i', 8) for k in range(6)]
    if all(_is_conc(v) for v in f):
        return NotImplemented
    # only for values produced by the forEpochSeconds contract; anything else runs the real code
    known = st.user.get('ldt_fresh', ())
    if not all((not _is_conc(v)) and v.get_id() in known for v in f):
        return NotImplemented
    yt, m, d, h, mi, s = [z3.BitVecVal(v, 8) if _is_conc(v) else v for v in f]
    v64 = _spec_seconds64(yt, m, d, h, mi, s)
    _pre(eng, st, z3.And(SPEC_VALID(yt, m, d), z3.ULT(h, 24), z3.ULT(mi, 60), z3.ULT(s, 60),
                         v64 > -(1 << 31), v64 < (1 << 31)),
         'LocalDateTime::toEpochSeconds on a valid date-time whose value is representable')
    return z3.Extract(31, 0, v64)


LDT = {LDT_FOR_EPOCH_SECONDS: ldt_for_epoch_seconds, LDT_TO_EPOCH_SECONDS: ldt_to_epoch_seconds}


def install_ldt(eng):
    eng.intercepts.update(LDT)
    return sorted(LDT)


# ---- class-based contract for call histories (C08/C09) ------------------------------------------------------

BELOW_HI = cal.epoch_seconds(1997)       # instants before 1997-01-01: year <= 1996 (zone data starts 2000)
ABOVE_LO = cal.epoch_seconds(2052)       # instants from 2052-01-01: year >= 2052 (zone data ends 2050)


def classes_contract(classes):
    """classes: list of (lo, hi, year | 'below' | 'above').  The class of each call is the one whose range the
    path condition implies (the harness assumes lo <= t < hi right before the call)."""
    per_year = {}

    def f(eng, st, args):
        t = args[0]
        if _is_conc(t):
            return NotImplemented
        ck = ('ldfes', t.get_id())
        hit = st.user.get(ck)
        if hit is not None:
            return hit[0]
        for (lo, hi, kind) in classes:
            if eng.ctx.check(st.pc, z3.Not(z3.And(t >= lo, t < hi))) == 'unsat':
                if kind in ('below', 'above') and FOR_EPOCH_DAYS in eng.intercepts:
                    # exact: run the real LocalDate::forEpochSeconds, whose forEpochDays call is the C06 contract
                    return NotImplemented
                if kind in ('below', 'above'):
                    yt, m, d = eng.fresh('ld_yt', 8), eng.fresh('ld_m', 8), eng.fresh('ld_d', 8)
                    rng = z3.And(z3.UGE(m, 1), z3.ULE(m, 12), z3.UGE(d, 1), z3.ULE(d, 31))
                    if kind == 'below':
                        st.pc.append(z3.And(rng, yt >= -69, yt <= -4))
                    else:
                        st.pc.append(z3.And(rng, yt >= 52, yt <= 68))
                    r = z3.Concat(d, m, yt)
                    st.user[ck] = (r, t)
                    st.user['contracts_used'] = st.user.get('contracts_used', 0) + 1
                    return r
                key = (kind, lo, hi)
                if key not in per_year:
                    per_year[key] = year_contract(kind, lo, hi)
                return per_year[key](eng, st, args)
        # no single class is implied by the path condition: split on the classes that are feasible
        for (lo, hi, kind) in classes:
            inside = z3.And(t >= lo, t < hi)
            if eng.ctx.check(st.pc, inside) != 'unsat':
                if eng.decide(st, inside):
                    return f(eng, st, args)
        raise RuntimeError('classes_contract: no class covers this call')
    return f


def range_lemma_negation(yt, m, d, kind):
    """Negation of the out-of-range class post-condition over the observed fields of the real function."""
    rng = z3.And(z3.UGE(m, 1), z3.ULE(m, 12), z3.UGE(d, 1), z3.ULE(d, 31))
    if kind == 'below':
        return z3.Not(z3.And(rng, yt >= -69, yt <= -4))
    return z3.Not(z3.And(rng, yt >= 52, yt <= 68))



# ---- window contract for LocalDateTime::forEpochSeconds around a concrete day (C07) ------------------------------------

def ldt_window_contract(day0, ndays):
    """x in [day0*86400, (day0+ndays)*86400): the date fields are those of the concrete days of the window (chosen by
    thresholds on x), the time fields are fresh with 3600h+60mi+s == x - 86400*day.  Exact; an instance of the C06 lemma
    'forEpochSeconds(x) is the calendar date-time of x' (c06_seconds_roundtrip spec obligations)."""
    lo, hi = day0 * 86400, (day0 + ndays) * 86400
    dates = [cal.civil(day0 + k) for k in range(ndays)]

    def f(eng, st, args):
        x = args[0]
        if _is_conc(x):
            return NotImplemented
        ck = ('ldtwin', x.get_id())
        hit = st.user.get(ck)
        if hit is not None:
            return hit[0]
        _pre(eng, st, z3.And(x >= lo, x < hi), 'LocalDateTime::forEpochSeconds argument within the %d-day window' % ndays)
        yt = z3.BitVecVal((dates[-1][0] - 2000) & 0xff, 8)
        m = z3.BitVecVal(dates[-1][1], 8)
        d = z3.BitVecVal(dates[-1][2], 8)
        start = z3.BitVecVal((lo + 86400 * (ndays - 1)) & 0xffffffff, 32)
        for k in range(ndays - 2, -1, -1):
            c = x < lo + 86400 * (k + 1)
            yt = z3.If(c, z3.BitVecVal((dates[k][0] - 2000) & 0xff, 8), yt)
            m = z3.If(c, z3.BitVecVal(dates[k][1], 8), m)
            d = z3.If(c, z3.BitVecVal(dates[k][2], 8), d)
            start = z3.If(c, z3.BitVecVal((lo + 86400 * k) & 0xffffffff, 32), start)
        h, mi, s = eng.fresh('w_h', 8), eng.fresh('w_mi', 8), eng.fresh('w_s', 8)
        st.pc.append(z3.And(z3.ULT(h, 24), z3.ULT(mi, 60), z3.ULT(s, 60),
                            z3.ZeroExt(24, h) * 3600 + z3.ZeroExt(24, mi) * 60 + z3.ZeroExt(24, s) == x - start))
        r = z3.Concat(s, mi, h, d, m, yt)
        st.user[ck] = (r, x)
        st.user['contracts_used'] = st.user.get('contracts_used', 0) + 1
        return r
    return f
