#!/usr/bin/env python3
"""C08 — answers are independent of query history (caches, shared processors, eviction).

Bounded call histories on the real IR: a processor shared by two TimeZone values, and zone managers whose cache is
smaller than the number of zones.  Every call argument is symbolic within its class (an in-range year, far below
the zone data, far above it, or the error sentinel); after the history one more symbolic query is answered both by
the used objects and by a freshly constructed time zone with its own processor, in the same engine state."""
import sys
import os
import random
sys.path.insert(0, os.path.dirname(os.path.abspath(__file__)))
import common  # noqa: E402
import zones  # noqa: E402
from spec import calendar as cal  # noqa: E402
from llsym import contracts  # noqa: E402

INT32_MIN, INT32_MAX = -(1 << 31), (1 << 31) - 1
KINDS = ['getUtcOffset', 'getDeltaOffset', 'getAbbrev', 'printTo']
PROP = 'C08'


def classes_for(scope, years):
    cl = []
    for y in years:
        if scope == 'bas':
            for (lo, hi) in zones.year_ranges('bas', y):
                cl.append((lo, hi, y))
        else:
            cl.append((cal.epoch_seconds(y), cal.epoch_seconds(y + 1), y))
    cl.append((INT32_MIN + 1, contracts.BELOW_HI, 'below'))
    cl.append((contracts.ABOVE_LO, INT32_MAX, 'above'))
    return cl


def make_histories(scope, n_zones, rnd, count, maxlen, years):
    cl = classes_for(scope, years)
    inr = [c for c in cl if isinstance(c[2], int)]
    oor = [c for c in cl if not isinstance(c[2], int)] + [(INT32_MIN, INT32_MIN, 'sentinel')]
    hs = []

    def el(kind, z, c):
        return (kind, z, c[0], c[1])
    za, zb = rnd.randrange(n_zones), rnd.randrange(n_zones)
    # fixed patterns that exercise the cache flags and the zone rebinding (classes well inside the zone data)
    mid = [c for c in inr if c[2] == 2001][-1]
    mid2 = [c for c in inr if c[2] == 2049][-1]
    for c in oor:
        for k in range(3):
            hs.append((za, zb, [el(k, 0, c), el(k, 0, c)], el(k, 0, mid)))               # out of range twice, then valid
            hs.append((za, zb, [el(0, 0, mid), el(k, 0, c)], el(k, 0, c)))                # valid, oor, oor again (final)
            hs.append((za, zb, [el(0, 0, mid), el(k, 0, c)], el(k, 0, mid)))              # valid, oor, same year again
            hs.append((za, zb, [el(0, 0, mid), el(k, 0, c), el(k, 0, c)], el(k, 0, mid)))
    for k in range(4):
        hs.append((za, zb, [el(0, 0, mid)], el(k, 1, mid)))                              # A then B, every accessor
        hs.append((za, zb, [el(k, 1, mid2), el(0, 0, mid)], el(k, 1, mid2)))
        hs.append((za, zb, [el(k, 0, mid)], el(k, 0, [c for c in inr if c[2] == 2000][-1])))  # year Y then Y-1
    count = max(count, len(hs) + 20)
    while len(hs) < count:
        za, zb = rnd.randrange(n_zones), rnd.randrange(n_zones)
        n = rnd.randint(1, maxlen)
        h = [el(rnd.randrange(4), rnd.randrange(2), rnd.choice(inr + oor)) for _ in range(n)]
        hs.append((za, zb, h, el(rnd.randrange(4), rnd.randrange(2), rnd.choice(inr + inr + oor))))
    return cl, hs


def items_for(scope, entry, n_zones, rnd, count, maxlen, years, to, tag):
    cl, hs = make_histories(scope, n_zones, rnd, count, maxlen, years)
    out = []
    for i, (za, zb, h, fin) in enumerate(hs):
        params = [len(h), za, zb, 0]
        for e in h + [fin]:
            params.extend(e)
        out.append(dict(name='%s/%03d' % (tag, i), entry=entry, args=[0, 0, 0, 0], params=params, timeout=to,
                        classes=cl, loop_limit=500, feas_ms=20000, budget_s=300,
                        history=[(KINDS[k], 'AB'[z], lo, hi) for (k, z, lo, hi) in h + [fin]]))
    return out


def lemma_items(years, to):
    out = []
    for y in years:
        out.append(dict(name='lemma/year/%d' % y, entry='z_year_lemma', args=[cal.epoch_seconds(y), cal.epoch_seconds(y + 1), 0, 0],
                        contracts=True, timeout=to, post=post_year, year=y))
    out.append(dict(name='lemma/below', entry='hist_range_lemma', args=[INT32_MIN + 1, contracts.BELOW_HI, 0, 0], contracts=True,
                    timeout=to, post=post_range, kind='below'))
    out.append(dict(name='lemma/above', entry='hist_range_lemma', args=[contracts.ABOVE_LO, INT32_MAX, 0, 0], contracts=True,
                    timeout=to, post=post_range, kind='above'))
    return out


def _f(obs):
    import z3
    return [z3.Extract(7, 0, obs[k]) if not isinstance(obs[k], int) else z3.BitVecVal(obs[k] & 0xff, 8)
            for k in ('yearTiny', 'month', 'day')]


def post_year(item, obs, leaf):
    yt, m, d = _f(obs)
    return [('L_year', contracts.year_lemma_negation(leaf.nondet[0][1], yt, m, d, item['year']))]


def post_range(item, obs, leaf):
    yt, m, d = _f(obs)
    return [('L_' + item['kind'], contracts.range_lemma_negation(yt, m, d, item['kind']))]


def main(prop=PROP):
    a = common.parse_args(prop)
    thorough = a.tier == 'thorough'
    kc = common.KernelCheck(a, ['h_hist.cpp', 'h_zone.cpp'], with_zonedb=True, with_zonedbx=True)
    kc.build()
    rnd = random.Random(a.seed)
    to = 300
    years = [1999, 2000, 2001, rnd.randrange(2002, 2049), 2049, 2050, 2051]
    n_ext, n_bas = zones.registry_sizes(kc)
    count = 400 if thorough else 70
    maxlen = 4 if thorough else 3
    items = lemma_items(years, to)
    items += items_for('ext', 'hist_ext_shared', n_ext, rnd, count, maxlen, years, to, 'ext/shared')
    items += items_for('bas', 'hist_bas_shared', n_bas, rnd, count, maxlen, years, to, 'bas/shared')
    items += items_for('ext', 'hist_ext_mgr1', n_ext, rnd, count // 2, maxlen, years, to, 'ext/manager1')
    items += items_for('ext', 'hist_ext_mgr2', n_ext, rnd, count // 3, maxlen, years, to, 'ext/manager2')
    items += items_for('bas', 'hist_bas_mgr1', n_bas, rnd, count // 2, maxlen, years, to, 'bas/manager1')
    items += items_for('bas', 'hist_bas_mgr2', n_bas, rnd, count // 3, maxlen, years, to, 'bas/manager2')
    # inductive step on the recycled storage: arbitrary stale bytes in the transition pool / cache slots / match array
    xn = zones.registry_names(kc, 'ext', n_ext)
    bn = zones.registry_names(kc, 'bas', n_bas)
    nz, ny = (None, 50) if thorough else (None, 12)
    hav = 0
    for scope, names, entry in (('ext', xn, 'z_ext_havoc'), ('bas', bn, 'z_bas_havoc')):
        zsel = range(len(names)) if nz is None else sorted(rnd.sample(range(len(names)), nz))
        for zi in zsel:
            for y in sorted(rnd.sample(range(2000, 2050), ny)):
                for (lo, hi) in (zones.year_ranges('bas', y) if scope == 'bas' else [(cal.epoch_seconds(y), cal.epoch_seconds(y + 1))]):
                    items.append(dict(name='havoc/%s/%03d/%d/%d' % (scope, zi, y, lo), entry=entry, args=[zi, lo, hi, 0], timeout=to,
                                      year_contract=(y, lo, hi), loop_limit=1200, feas_ms=20000, budget_s=300,
                                      quick_ms=8000))
                    hav += 1
    res = kc.run_items(items, jobs=16)
    kc.judge_kernel(res)
    hist = [it for it in items if 'history' in it]
    cov = kc.kernel_coverage(
        rule='one work item = one call history (sequence of accessor x zone x argument class) followed by a final query; every '
             'argument is symbolic within its class; obligations: used objects and a fresh time zone agree on the final query, no '
             'sanitizer trap / out-of-bounds / null access / unwinding failure anywhere in the history',
        bounds={'history_length': '<= %d calls + final query' % maxlen, 'histories': len(hist),
                'argument_classes': 'UTC years %s (t symbolic inside the year; Jan-1/rest split for basic), below 1997, from 2052, '
                                    'the error sentinel' % years,
                'objects': 'one processor shared by two TimeZone values; zone managers with 1 and 2 cache slots and two zones',
                'zones': 'zone pairs drawn with VERIF_SEED per history', 'loop_unwinding': 500,
                'stale_storage_step': '%d (zone, year range) items: every byte of the extended transition pool and match array / the '
                                      'basic transition slots is an unconstrained solver variable; the cache-rebuilding query must '
                                      'answer like a processor with zero-filled storage, for every instant of the year' % hav},
        outside=['histories longer than the bound', 'zone pairs not drawn', 'getOffsetDateTime inside histories (C07)'])
    cov['sample_histories'] = [it['history'] for it in hist[:5]]
    kc.finish(cov, ['class contract for LocalDate::forEpochSeconds (year / below / above) with lemma obligations discharged on '
                    'the real IR in this run (lemma/* items)'])


if __name__ == '__main__':
    main()
