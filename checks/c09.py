#!/usr/bin/env python3
"""C09 — total error handling and memory safety; transition buffers never overflow.

Three parts, all on the UBSan-trap IR with the bounds-checked memory model and unwinding assertions:
 (1) every public date/time factory and accessor with arbitrary argument values (no defect class reachable; error
     values are flagged / yield the documented sentinels);
 (2) call histories (the C08 machinery) with arguments below / above the zone data and the error sentinel, repeated;
 (3) the extended transition buffer: for every zone of zonedbx and every UTC year 1999..2050 the high-water mark stays
     below the zone's recorded transitionBufSize and below the pool size (t symbolic inside the year); the basic
     5-entry cache never drops a transition (C02's watch, years 1999..2050)."""
import sys
import os
import random
sys.path.insert(0, os.path.dirname(os.path.abspath(__file__)))
import common  # noqa: E402
import zones  # noqa: E402
import c08  # noqa: E402
from spec import calendar as cal  # noqa: E402

YEARS = list(range(1999, 2051))
TOTAL = ['c09_local_date_any', 'c09_day_of_week_any', 'c09_days_in_month_any', 'c09_epoch_days_any', 'c09_epoch_seconds_any',
         'c09_unix_seconds_any', 'c09_ldt_components_any', 'c09_odt_any', 'c09_zdt_manual_any', 'c09_time_period_any',
         'c09_time_offset_any']


def run_highwater(item):
    """Worker: one extended zone, every year: symbolic t, observe high-water / bufSize per leaf."""
    import z3
    import time
    import traceback
    t0 = time.time()
    out = {'name': item['name'], 'zone': item['zone'], 'index': item['index'], 'leaves': 0, 'steps': 0, 'max_high_water': 0,
           'buf_size': None, 'violations': [], 'defects': [], 'error': None, 'functions': []}
    try:
        mod = common._module()
        called = set()
        for year in item['years']:
            lo, hi = cal.epoch_seconds(year), cal.epoch_seconds(year + 1)
            try:
                eng, leaves = zones.explore(mod, 'ext', item['index'], lo, hi, year, entry='z_ext_highwater')
            except zones.engine.EngineError as e:
                out['engine_errors'] = out.get('engine_errors', []) + ['year %d: %s' % (year, e)]
                continue
            called |= eng.called
            for lf in leaves:
                out['steps'] += lf.steps
                if lf.status == 'defect':
                    d = dict(lf.defect)
                    d['year'] = year
                    out['defects'].append(d)
                    continue
                if lf.status != 'ok':
                    continue
                out['leaves'] += 1
                o = dict(lf.obs)
                hw, buf = o['highWater'], o['bufSize']
                if not isinstance(hw, int) or not isinstance(buf, int):
                    s = z3.Solver()
                    s.add(*lf.pc)
                    s.add(z3.Or(z3.UGE(z3.Extract(7, 0, hw) if not isinstance(hw, int) else z3.BitVecVal(hw, 8),
                                       z3.Extract(7, 0, buf) if not isinstance(buf, int) else z3.BitVecVal(buf, 8))))
                    if str(s.check()) != 'unsat':
                        out['violations'].append((year, 'symbolic high water may reach buffer size'))
                    continue
                hw &= 0xff
                buf &= 0xff
                out['buf_size'] = buf
                out['max_high_water'] = max(out['max_high_water'], hw)
                pool = o['poolSize'] & 0xff
                out['pool_size'] = pool
                if hw >= buf or hw >= pool or buf > pool:
                    out['violations'].append((year, 'highWater=%d transitionBufSize=%d poolSize=%d' % (hw, buf, pool)))
                if 1999 <= year <= 2050 and isinstance(o['isError'], int) and o['isError']:
                    out['violations'].append((year, 'error offset inside the zone data range'))
        out['functions'] = sorted(called)
    except Exception as e:  # noqa
        out['error'] = 'exception: %s\n%s' % (e, traceback.format_exc())
    out['wall'] = round(time.time() - t0, 2)
    return out


def main():
    a = common.parse_args('C09')
    thorough = a.tier == 'thorough'
    kc = common.KernelCheck(a, ['h_c09.cpp', 'h_hist.cpp', 'h_zone.cpp'], with_zonedb=True, with_zonedbx=True)
    kc.build()
    rnd = random.Random(a.seed + 9)
    to = 600 if thorough else 200
    items = [dict(name='total/' + e, entry=e, args=[0, 0, 0, 0], timeout=to, feas_ms=2000, budget_s=600) for e in TOTAL]
    years = [1999, 2000, 2001, rnd.randrange(2002, 2049), 2049, 2050, 2051]
    n_ext, n_bas = zones.registry_sizes(kc)
    count = 300 if thorough else 60
    maxlen = 4
    items += c08.lemma_items(years, to)
    items += c08.items_for('ext', 'hist_ext_shared', n_ext, rnd, count, maxlen, years, to, 'hist/ext/shared')
    items += c08.items_for('bas', 'hist_bas_shared', n_bas, rnd, count, maxlen, years, to, 'hist/bas/shared')
    items += c08.items_for('ext', 'hist_ext_mgr1', n_ext, rnd, count // 2, maxlen, years, to, 'hist/ext/manager1')
    items += c08.items_for('bas', 'hist_bas_mgr1', n_bas, rnd, count // 2, maxlen, years, to, 'hist/bas/manager1')
    res = kc.run_items(items, jobs=16)
    kc.judge_kernel(res)
    # (3) buffers
    xn = zones.registry_names(kc, 'ext', n_ext)
    lem = kc.run_items([dict(name='year_lemma/%d' % y, year=y) for y in YEARS], jobs=16, fn=zones.run_year_lemma)
    zones.judge_lemmas(kc, lem)
    hw = kc.run_items([dict(name='highwater/%s' % xn[i], zone=xn[i], index=i, years=YEARS) for i in range(n_ext)], jobs=16,
                      fn=run_highwater)
    for r in hw:
        if r['error']:
            kc.inconclusive.append('%s: %s' % (r['name'], r['error']))
        for e in r.get('engine_errors', []):
            kc.inconclusive.append('%s: engine: %s' % (r['name'], e))
        for (year, what) in r['violations']:
            kc._record('buffer:%s:%d' % (r['zone'], year), 'extended zone %s year %d: %s' % (r['zone'], year, what), True,
                       {'zone': r['zone'], 'year': year, 'what': what})
        for d in r['defects']:
            t = None
            for (n, v, b) in d.get('model', []):
                if n == 't':
                    t = v - (1 << 32) if v >> 31 else v
            confirmed = False
            if t is not None:
                rc, lines, err = zones.build.run_native(kc.native(True), 'z_ext_highwater', [r['index'], t, t + 1, 0], [t & 0xffffffff])
                confirmed = rc not in (0, 3, 4)
            kc._record('zone-query:%s:%s:%s' % (d['kind'], common.site_key(d['where']), r['zone']),
                       '%s: %s in extended zone %s (year %s) at t=%s' % (d['kind'], d['msg'], r['zone'], d.get('year'), t),
                       confirmed, {'zone': r['zone'], 'defect': d, 't': t})
    bn = zones.registry_names(kc, 'bas', n_bas)
    zones.build_oracles(kc, ['bas'])
    bres = kc.run_items([dict(name='bas/%s' % bn[i], scope='bas', index=i, zone=bn[i], years=[1999, 2050]) for i in range(n_bas)],
                        jobs=16, fn=zones.run_zone_item)
    for r in bres:
        r['sat'] = [s for s in r['sat'] if s['kind'] != 'oracle']      # the oracle comparison is C02's job (2000..2049)
    zones.judge_zone_results(kc, bres, 'bas')
    kc.results = [r for r in kc.results if 'obligations' in r]
    cov = kc.kernel_coverage(
        rule='obligations: no sanitizer trap / out-of-bounds / null access / unwinding failure on any feasible path, error '
             'values flagged; one work item = one entry point with arbitrary arguments, or one call history, or one zone '
             '(all years) for the buffer bounds',
        bounds={'total_harnesses': TOTAL, 'arguments': 'all int8/uint8/int16/int32 values of every parameter',
                'histories': 'as C08 with length <= %d, %d per object kind, argument classes incl. below/above range and sentinel' % (maxlen, count),
                'buffers': 'all %d zonedbx zones x UTC years 1999..2050 (t symbolic in the year); zonedb years 1999 and 2050 for the '
                           'addTransition watch (2000..2049 are C02)' % n_ext, 'loop_unwinding': 500},
        outside=['UB kinds not instrumented: strict aliasing, alignment, data races', 'histories longer than the bound'])
    cov['buffer_zones'] = len(hw)
    cov['buffer_leaves'] = sum(r['leaves'] for r in hw)
    cov['max_high_water'] = max([r['max_high_water'] for r in hw] or [0])
    cov['zones_at_buffer_limit'] = [r['zone'] for r in hw if r['buf_size'] is not None and r['max_high_water'] + 1 == r['buf_size']][:20]
    kc.finish(cov, ['UBSan kinds: signed-integer-overflow, shift, integer-divide-by-zero, bounds, null, unreachable, return, vla-bound',
                    'documented range limits (acetime_t int32 range, toUnixSeconds beyond 2038) surface here as known findings'])


if __name__ == '__main__':
    main()
