#!/usr/bin/env python3
"""C12 — zone tables are a faithful encoding: C++ decode equals what the Python generator encoded.

Encoder: the repository's real ArduinoGenerator item functions (_generate_era_item, _generate_policy_item and the
helpers they call) executed by pysym on symbolic field values; they emit C++ constant expressions as text, which
"token execution" maps back to integer terms.  Decoder: the real broker accessors on the IR (llsym) over symbolic
table bytes.  One SMT query per (encoder path, field): substitute the encoded bytes into the decoder's terms and ask
for an admissible value that decodes to something else, or whose encoding does not fit the table field's type."""
import sys
import os
import re
import time
import json
sys.path.insert(0, os.path.dirname(os.path.abspath(__file__)))
import common  # noqa: E402
import z3  # noqa: E402
from llsym import build, loader, engine  # noqa: E402

PROP = 'C12'
SUFFIX = {'w': 0x00, 's': 0x10, 'u': 0x20}


def consts(scope):
    d = {}
    for k, v in (('W', 0), ('S', 16), ('U', 32)):
        d['%s::ZoneContext::kSuffix%s' % (scope, k)] = v
    return d


def decode_terms(mod, entry):
    eng = engine.Engine(mod)
    lv = eng.run(entry, [0, 0, 0, 0])
    assert len(lv) == 1 and lv[0].status == 'ok', 'decoder harness must be a single path'
    byts = dict(('f%d' % i, t) for i, (n, t, b) in enumerate(lv[0].nondet))
    return byts, dict(lv[0].obs), sorted(eng.called)


def s_int(bv):
    """signed integer value of a 64-bit observation term"""
    return z3.BV2Int(bv, is_signed=True)


ERA_FIELDS = [('offsetCode', 'f0', -128, 127), ('deltaCode', 'f1', -128, 127), ('untilYearTiny', 'f2', -128, 127),
              ('untilMonth', 'f3', 0, 255), ('untilDay', 'f4', 0, 255), ('untilTimeCode', 'f5', 0, 255),
              ('untilTimeModifier', 'f6', 0, 255)]
RULE_FIELDS = [('fromYearTiny', 'f0', -128, 127), ('toYearTiny', 'f1', -128, 127), ('inMonth', 'f2', 0, 255),
               ('onDayOfWeek', 'f3', 0, 255), ('onDayOfMonth', 'f4', -128, 127), ('atTimeCode', 'f5', 0, 255),
               ('atTimeModifier', 'f6', 0, 255), ('deltaCode', 'f7', -128, 127), ('letter', 'f8', 0, 255)]
_FIELD_LINE = re.compile(r'^\s+(.*?)\s*/\*(\w+)[^*]*\*/,\s*$')


def parse_item(text):
    out = {}
    for ln in text.splitlines():
        m = _FIELD_LINE.match(ln)
        if m:
            out[m.group(2)] = m.group(1)
    return out


def worker(task):
    """One (scope, item kind, suffix, letter case) slice: returns stats, samples, violations, inconclusives."""
    scope, kind, suffix, letter_case = task['scope'], task['kind'], task['suffix'], task['letter']
    sys.path.insert(0, os.path.join(build.REPO, 'tools'))
    import pysym
    from pysym import SymInt
    from zonedb import argenerator as ag
    from tzdb import extractor as ex
    mod = common._module()
    Int = z3.Int
    out = {'name': '%s/%s/%s/%s' % (scope, kind, suffix, letter_case), 'encoder_paths': 0, 'queries': 0, 'unsat': 0, 'sat': 0,
           'unknown': 0, 'solver_time': 0.0, 'exceptions': {}, 'samples': [], 'violations': [], 'inconclusive': [], 'funcs': [],
           'error': None}
    try:
        def query(fs, model_vars):
            t1 = time.time()
            s = z3.Solver()
            s.set('timeout', 120000)
            s.add(*fs)
            r = str(s.check())
            out['solver_time'] += time.time() - t1
            out['queries'] += 1
            out[r] = out.get(r, 0) + 1
            if r == 'sat':
                m = s.model()
                return r, dict((v, m.eval(Int(v), model_completion=True).as_long()) for v in model_vars)
            return r, None

        gran = 60 if scope == 'extended' else 900   # STDOFF granularity (tzcompiler.py default per scope)
        gran_at = 60   # AT/UNTIL granularity is 60 s in both scopes (tzcompiler.py)
        if kind == 'era':
            g = ag.ZoneInfosGenerator.__new__(ag.ZoneInfosGenerator)
            g.scope = scope
            off, delta, uy, um, ud, us = [Int(n) for n in ('off', 'delta', 'uy', 'um', 'ud', 'us')]
            model_vars = ['off', 'delta', 'uy', 'um', 'ud', 'us']
            dom = [off % gran == 0, off >= -57600, off <= 57600, delta % 900 == 0, delta >= -3600, delta <= 9900,
                   z3.Or(z3.And(uy >= 1872, uy <= 2126), uy == ex.MAX_UNTIL_YEAR), um >= 0, um <= 12, ud >= 0, ud <= 31,
                   us % gran_at == 0, us >= 0, us <= 90000]
            fields, entry = ERA_FIELDS, 'c12_era_%s' % scope

            def f():
                era = dict(rules='-', offsetSecondsTruncated=SymInt(off), rulesDeltaSecondsTruncated=SymInt(delta),
                           untilYear=SymInt(uy), untilMonth=SymInt(um), untilDay=SymInt(ud),
                           untilSecondsTruncated=SymInt(us), untilTimeSuffix=suffix, format='X%s', rawLine='raw')
                return g._generate_era_item('Zone/Name', era)[0]

            def expected(enc, p):
                if enc is None:
                    return False
                return [('offsetMinutes', z3.If(off >= 0, off / 60, -((-off) / 60))),
                        ('deltaMinutes', z3.If(delta >= 0, delta / 60, -((-delta) / 60))),
                        ('untilYearTiny', z3.If(uy == ex.MAX_UNTIL_YEAR, z3.IntVal(ex.MAX_UNTIL_YEAR_TINY), uy - 2000)),
                        ('untilMonth', z3.If(um == 0, z3.IntVal(1), um)), ('untilDay', z3.If(ud == 0, z3.IntVal(1), ud)),
                        ('untilTimeMinutes', us / 60), ('untilTimeSuffix', z3.IntVal(SUFFIX[suffix]))]
        else:
            g = ag.ZonePoliciesGenerator.__new__(ag.ZonePoliciesGenerator)
            g.scope = scope
            at, delta, fy, ty, im, dow, dom_ = [Int(n) for n in ('at', 'delta', 'fy', 'ty', 'im', 'dow', 'dom')]
            model_vars = ['at', 'delta', 'fy', 'ty', 'im', 'dow', 'dom']
            dom = [at % gran_at == 0, at >= 0, at <= 90000, delta % 900 == 0, delta >= -3600, delta <= 9900,
                   z3.Or(z3.And(fy >= 1873, fy <= 2126), fy == ex.MIN_YEAR, fy == ex.MAX_YEAR),
                   z3.Or(z3.And(ty >= 1873, ty <= 2126), ty == ex.MIN_YEAR, ty == ex.MAX_YEAR),
                   im >= 1, im <= 12, dow >= 0, dow <= 7, dom_ >= -31, dom_ <= 31]
            fields, entry = RULE_FIELDS, 'c12_rule_%s' % scope
            li = None if letter_case == 'single' else int(letter_case)

            def f():
                rule = dict(atSecondsTruncated=SymInt(at), atTimeSuffix=suffix, deltaSecondsTruncated=SymInt(delta),
                            fromYear=SymInt(fy), toYear=SymInt(ty), inMonth=SymInt(im), onDayOfWeek=SymInt(dow),
                            onDayOfMonth=SymInt(dom_), letter='S' if li is None else 'WAT', rawLine='raw')
                letters = None if li is None else {'WAT': li}
                txt = g._generate_policy_item('Pol', [rule], letters)[0]
                return txt[txt.index('  // raw'):txt.index('  },') + 5]

            def tiny(y):
                return z3.If(y == ex.MAX_YEAR, z3.IntVal(ex.MAX_YEAR_TINY),
                             z3.If(y == ex.MIN_YEAR, z3.IntVal(ex.MIN_YEAR_TINY), y - 2000))

            def expected(enc, p):
                if enc is None:
                    # the only admissible generator exception: an indexed letter number >= 32
                    return li is not None and li >= 32 and 'indexed letters >= 32' in str(p.exception)
                return [('fromYearTiny', tiny(fy)), ('toYearTiny', tiny(ty)), ('inMonth', im), ('onDayOfWeek', dow),
                        ('onDayOfMonth', dom_), ('atTimeMinutes', at / 60), ('atTimeSuffix', z3.IntVal(SUFFIX[suffix])),
                        ('deltaMinutes', z3.If(delta >= 0, delta / 60, -((-delta) / 60))),
                        ('letter', z3.IntVal(ord('S')) if li is None else z3.IntVal(li))]
        paths = pysym.explore(f, assumptions=dom)
        byts, obs, called = decode_terms(mod, entry)
        out['funcs'] = called
        for p in paths:
            out['encoder_paths'] += 1
            if p.exception is not None:
                key = '%s: %s' % (type(p.exception).__name__, str(p.exception)[:80])
                out['exceptions'][key] = out['exceptions'].get(key, 0) + 1
                if not expected(None, p):
                    r, mdl = query(p.pc, model_vars)
                    if r == 'sat':
                        out['violations'].append(('generator raises %s' % key, mdl, None))
                continue
            item = parse_item(p.result)
            enc = {}
            for (fname, byte, lo, hi) in fields:
                term = pysym.eval_cpp_expr(item[fname], p.tokens, consts(scope))
                enc[fname] = term
                cases = [(z3.BoolVal(True), '')]
                if kind == 'era' and scope == 'extended' and fname == 'deltaCode':
                    rem = (Int('off') % 900) / 60
                    cases = [(rem >= 8, ' (STDOFF minute remainder >= 8: upper nibble needs the sign bit)'), (rem < 8, '')]
                for (cc, note) in cases:
                    r, mdl = query(p.pc + [cc, z3.Or(term < lo, term > hi)], model_vars)
                    if r == 'sat':
                        out['violations'].append(('encoded %s does not fit its %s field%s' % (
                            fname, 'int8_t' if lo < 0 else 'uint8_t', note), mdl, {'expr': item[fname]}))
                    elif r != 'unsat':
                        out['inconclusive'].append('%s: fits query for %s is %s' % (out['name'], fname, r))
            subst = [(byts[byte], z3.Int2BV(enc[fname], 8)) for (fname, byte, lo, hi) in fields]
            fit = [z3.And(enc[fname] >= lo, enc[fname] <= hi) for (fname, byte, lo, hi) in fields]
            for (dname, want) in expected(enc, p):
                got = s_int(z3.substitute(obs[dname], *subst)) if not isinstance(obs[dname], int) else z3.IntVal(obs[dname])
                r, mdl = query(p.pc + fit + [got != want], model_vars)
                if len(out['samples']) < 1:
                    out['samples'].append({'scope': scope, 'item': kind, 'decoded': dname, 'expected': str(z3.simplify(want))[:120],
                                           'encoded_fields': dict((k, str(z3.simplify(v))[:80]) for k, v in enc.items()), 'result': r})
                if r == 'sat':
                    out['violations'].append(('decoded %s differs from the encoded value' % dname, mdl, None))
                elif r != 'unsat':
                    out['inconclusive'].append('%s: decode query for %s is %s' % (out['name'], dname, r))
    except Exception as e:  # noqa
        import traceback
        out['error'] = 'exception: %s\n%s' % (e, traceback.format_exc())
    return out


def replay(kc, scope, kind, suffix, mdl, what):
    """Concrete replay: run the real generator on the values, compile the emitted item with clang and decode it."""
    import subprocess
    sys.path.insert(0, os.path.join(build.REPO, 'tools'))
    from zonedb import argenerator as ag
    try:
        if kind != 'era':
            g = ag.ZonePoliciesGenerator.__new__(ag.ZonePoliciesGenerator)
            g.scope = scope
            rule = dict(atSecondsTruncated=mdl['at'], atTimeSuffix=suffix, deltaSecondsTruncated=mdl['delta'], fromYear=mdl['fy'],
                        toYear=mdl['ty'], inMonth=mdl['im'], onDayOfWeek=mdl['dow'], onDayOfMonth=mdl['dom'], letter='S', rawLine='r')
            txt = g._generate_policy_item('Pol', [rule], None)[0]
            text = txt[txt.index('  // r'):txt.index('  },') + 5]
            struct, broker = '%s::ZoneRule' % scope, '%s::ZoneRuleBroker' % scope
            body = 'printf("%d %d %d %d\\n", b.atTimeMinutes(), b.deltaMinutes(), b.fromYearTiny(), b.toYearTiny());'
            want = None
        else:
            g = ag.ZoneInfosGenerator.__new__(ag.ZoneInfosGenerator)
            g.scope = scope
            era = dict(rules='-', offsetSecondsTruncated=mdl['off'], rulesDeltaSecondsTruncated=mdl['delta'],
                       untilYear=mdl['uy'], untilMonth=mdl['um'], untilDay=mdl['ud'], untilSecondsTruncated=mdl['us'],
                       untilTimeSuffix=suffix, format='X', rawLine='r')
            text = g._generate_era_item('Z/Z', era)[0]
            struct, broker = '%s::ZoneEra' % scope, '%s::ZoneEraBroker' % scope
            body = 'printf("%d %d %d\\n", b.offsetMinutes(), b.deltaMinutes(), b.untilTimeMinutes());'

            def tz(v):
                return v // 60 if v >= 0 else -((-v) // 60)
            want = '%d %d %d' % (tz(mdl['off']), tz(mdl['delta']), mdl['us'] // 60)
        decl = 'static const %s e = %s;' % (struct, text.strip().rstrip(',').split('\n', 1)[1])
        src = os.path.join(kc.wd, 'replay_c12.cpp')
        with open(src, 'w') as f:
            f.write('#include <stdio.h>\n#include <AceTime.h>\nusing namespace ace_time;\nVerifNullSerial Serial;\n%s\n'
                    'int main() { %s b(&e); %s return 0; }\n' % (decl, broker, body))
        exe = os.path.join(kc.wd, 'replay_c12')
        p = subprocess.run([build.CLANG] + build.COMMON + ['-I' + os.path.join(build.REPO, 'src'), src, '-o', exe],
                           stdout=subprocess.PIPE, stderr=subprocess.STDOUT, text=True)
        if p.returncode != 0:
            return ('does not fit' in what) and ('narrow' in p.stdout or 'cannot be narrowed' in p.stdout)
        out = subprocess.run([exe], stdout=subprocess.PIPE, text=True).stdout.strip()
        return want is None or out != want
    except Exception as e:  # noqa
        kc.inconclusive.append('replay failed: %s' % e)
        return False


def main():
    a = common.parse_args(PROP)
    kc = common.KernelCheck(a, ['h_c12.cpp'])
    kc.build()
    tasks = []
    for scope in ('extended', 'basic'):
        for suffix in 'wsu':
            tasks.append(dict(name='%s/era/%s' % (scope, suffix), scope=scope, kind='era', suffix=suffix, letter='-'))
            for letter in ('single', '0', '31', '32'):
                tasks.append(dict(name='%s/rule/%s/%s' % (scope, suffix, letter), scope=scope, kind='rule', suffix=suffix, letter=letter))
    res = kc.run_items(tasks, jobs=16, fn=worker)
    kc.results = []
    stats = {'encoder_paths': 0, 'queries': 0, 'unsat': 0, 'sat': 0, 'unknown': 0, 'solver_time': 0.0}
    exceptions = {}
    samples = []
    funcs = set()
    for r, t in zip(res, sorted(tasks, key=lambda t: t['name'])):
        if r['error']:
            kc.inconclusive.append('%s: %s' % (r['name'], r['error']))
            continue
        for k in stats:
            stats[k] += r.get(k, 0)
        for k, v in r['exceptions'].items():
            exceptions[k] = exceptions.get(k, 0) + v
        samples.extend(r['samples'])
        funcs.update(r['funcs'])
        kc.inconclusive.extend(r['inconclusive'])
        scope, kind, suffix, letter = r['name'].split('/')
        for (what, mdl, extra) in r['violations']:
            key = '%s:%s:%s' % (scope, kind, what)
            if key in [k for k, _, _ in kc.violations] or key in [k for k, _ in kc.known]:
                continue
            confirmed = replay(kc, scope, kind, suffix, mdl, what)
            kc._record(key, '%s %s (suffix %s): %s for %s' % (scope, kind, suffix, what, mdl), confirmed,
                       {'scope': scope, 'item': kind, 'suffix': suffix, 'what': what, 'values': mdl, 'extra': extra})
    cov = {
        'states': max(1, stats['encoder_paths']), 'transitions': max(1, stats['queries']), 'traces_validated_against_impl': 0,
        'samples': samples[:4] or [{'note': 'none'}], 'evaluations': stats['queries'], 'distinct_nontrivial': stats['queries'],
        'rule': 'one query = encoder path condition (pysym over the real generator code) AND [table bytes := Int2BV(encoded fields)] '
                'AND (decoded value != encoded value, or encoded field outside the C++ field type); per scope x item kind x suffix '
                'x letter case x encoder path x field',
        'encoder_paths': stats['encoder_paths'], 'queries_unsat': stats['unsat'], 'queries_sat': stats['sat'],
        'queries_unknown': stats['unknown'], 'solver_time_s': round(stats['solver_time'], 1),
        'generator_exceptions': exceptions,
        'functions_encoded': {'python (pysym)': ['ZoneInfosGenerator._generate_era_item', 'ZonePoliciesGenerator._generate_policy_item',
                                                  '_to_code_and_modifier', '_to_modifier', '_to_extended_delta_code',
                                                  '_to_extended_offset_and_delta', 'to_tiny_year', 'div_to_zero'],
                              'c++ (llsym)': sorted(f for f in funcs if not f.startswith('__verif'))},
        'bounds': {'STDOFF': '-16:00..+16:00 in whole minutes (extended) / multiples of 15 min (basic)',
                   'SAVE': '-1:00..+2:45 in 15-minute steps', 'AT/UNTIL': '00:00..25:00 to the minute (both scopes), suffix w/s/u',
                   'years': '1872..2126, MIN_YEAR, MAX_YEAR, MAX_UNTIL_YEAR', 'letter': "single character and indexed letter numbers 0, 31, 32 "
                   '(32 must be rejected)', 'month/day fields': 'month 0..12, day 0..31, weekday 0..7, onDayOfMonth -31..31'},
        'outside_bounds': ['strings (names, formats, letter texts) are concrete', 'values outside the listed ranges'],
        'ir_flags': ' '.join(build.IR_FLAGS),
    }
    kc.finish(cov, ['the C++ constant-expression evaluator (pysym.eval_cpp_expr) covers exactly the grammar the generator emits '
                    '(integers, kSuffix constants, +, -, <<, parentheses, character literals)',
                    'Python ints are mathematical integers (z3 Int); table bytes are 8-bit vectors; joined by Int2BV after the "fits" obligation'])


if __name__ == '__main__':
    main()
