"""Shared driver code for the /verif checks."""
import os
import sys
import json
import time
import argparse
import traceback
import multiprocessing

VERIF = os.path.dirname(os.path.dirname(os.path.abspath(__file__)))
sys.path.insert(0, VERIF)
from llsym import build, loader, engine, solve  # noqa: E402

EXIT_OK, EXIT_VIOLATION, EXIT_INCONCLUSIVE = 0, 1, 2
SHIM_NOTE = ('shim headers /verif/shim (Arduino.h, Print.h, pgmspace.h, AceCommon.h subset) stand in for the '
             'Arduino core and AceCommon, which are not in the repository')
LP64_NOTE = 'x86-64 LP64 data model (int 32 bit, unsigned long 64 bit); AVR/32-bit targets are outside the claim'
ENGINE_NOTE = ('llsym (our LLVM-IR symbolic executor), clang 14 lowering to IR, z3/cvc5 are trusted; every '
               'counterexample is replayed on a native build before it is reported')


def parse_args(prop_id):
    ap = argparse.ArgumentParser()
    ap.add_argument('--tier', default=os.environ.get('VERIF_TIER', 'quick'), choices=['quick', 'thorough'])
    ap.add_argument('--seed', type=int, default=int(os.environ.get('VERIF_SEED', '0') or 0))
    ap.add_argument('--replay', default=None)
    ap.add_argument('--jobs', type=int, default=int(os.environ.get('VERIF_JOBS', '0') or 0))
    ap.add_argument('--only', default=None, help='comma separated item-name substrings (debugging)')
    a = ap.parse_args()
    a.prop = prop_id
    return a


def known_findings():
    p = os.path.join(VERIF, 'known_findings.json')
    if not os.path.exists(p):
        return {'findings': [], 'fixed': []}
    with open(p) as f:
        return json.load(f)


def match_known(prop, key):
    for f in known_findings().get('findings', []):
        if f.get('property') == prop and f.get('key') == key:
            return f
    return None


def write_evidence(prop, tier, seed, level, coverage, assumptions, wall, violations):
    os.makedirs(os.path.join(VERIF, 'evidence'), exist_ok=True)
    ev = {'property_id': prop, 'tier': tier, 'seed': seed, 'level': level, 'coverage': coverage,
          'assumptions': assumptions, 'wall_s': round(wall, 2), 'violations': violations}
    p = os.path.join(VERIF, 'evidence', prop + '.json')
    with open(p + '.tmp', 'w') as f:
        json.dump(ev, f, indent=1, default=str)
    os.replace(p + '.tmp', p)
    return p


def write_replay(prop, name, payload):
    d = os.path.join(VERIF, 'replays', prop)
    os.makedirs(d, exist_ok=True)
    p = os.path.join(d, name + '.json')
    with open(p, 'w') as f:
        json.dump(payload, f, indent=1, default=str)
    return p


# ---------------------------------------------------------------------------
# worker side: one engine per process

_W = {}


def _worker_init(bc_path, eng_opts):
    _W['bc'] = bc_path
    _W['opts'] = eng_opts
    _W['mod'] = None


def _module():
    if _W.get('mod') is None:
        _W['mod'] = loader.Module(_W['bc'])
    return _W['mod']


def _term_str(v):
    if isinstance(v, (int, bytes, str)) or v is None:
        return v
    if isinstance(v, tuple):
        return [_term_str(x) for x in v]
    try:
        return v.sexpr()[:300]
    except Exception:
        return repr(v)[:300]


def run_kernel_item(item):
    """Symbolically execute one harness entry and discharge its obligations.
    item: dict(entry, args, name, timeout, loop_limit, loop_limits, quick_ms, diff, mode, feas_ms)"""
    t0 = time.time()
    out = {'name': item['name'], 'entry': item['entry'], 'args': item['args'], 'obligations': [],
           'defects': [], 'error': None, 'paths': 0, 'steps': 0, 'reach_ok': False, 'functions': [],
           'notes': [], 'samples': []}
    try:
        import z3
        mod = _module()
        opts = dict(_W['opts'])
        eng = engine.Engine(mod, loop_limit=item.get('loop_limit', opts.get('loop_limit', 64)),
                            mode=item.get('mode', 'eager'), defer_traps=item.get('defer_traps', True),
                            solver_timeout_ms=item.get('feas_ms', 3000))
        eng.loop_limits.update(item.get('loop_limits', {}))
        eng.deadline = eng.ctx.deadline = time.time() + item.get('budget_s', 900)
        eng.params = item.get('params')
        out['params'] = item.get('params')
        if item.get('contracts'):
            from llsym import contracts
            out['contracts'] = contracts.install(eng)
        if item.get('ldt_contracts'):
            from llsym import contracts
            out['contracts'] = out.get('contracts', []) + contracts.install_ldt(eng)
        if item.get('classes'):
            from llsym import contracts
            if item.get('exact_out_of_range'):
                eng.intercepts[contracts.FOR_EPOCH_DAYS] = contracts.for_epoch_days
            eng.intercepts[contracts.LD_FOR_EPOCH_SECONDS] = contracts.classes_contract(item['classes'])
            eng.resolve_bools = True
        if item.get('year_contract'):
            from llsym import contracts
            y, lo, hi = item['year_contract']
            eng.intercepts[contracts.LD_FOR_EPOCH_SECONDS] = contracts.year_contract(y, lo, hi)
            eng.resolve_bools = True
        if item.get('ldt_window'):
            from llsym import contracts
            eng.intercepts[contracts.LDT_FOR_EPOCH_SECONDS] = contracts.ldt_window_contract(*item['ldt_window'])
        leaves = eng.run(item['entry'], list(item['args']))
        out['paths'] = len(leaves)
        out['steps'] = sum(l.steps for l in leaves)
        out['functions'] = sorted(eng.called)
        out['engine_stats'] = dict(eng.stats, solver_checks=eng.ctx.checks, solver_time=round(eng.ctx.time, 2))
        obls = []
        owner = []
        reach = False
        seen = set()
        expected_reach = item.get('reach', 1)
        for li, lf in enumerate(leaves):
            variables = [t for (_, t, _) in lf.nondet]
            if lf.status == 'defect':
                d = dict(lf.defect)
                d['nondet_order'] = [n for (n, _, _) in lf.nondet]
                out['defects'].append(d)
                continue
            if lf.status != 'ok':
                continue
            for n in lf.notes:
                if n not in out['notes']:
                    out['notes'].append(n)
            for (kind, neg, tag, pc) in lf.obligations:
                # obligations recorded before a fork are shared by the children: discharge them once
                k = (kind, tag, neg.get_id(), tuple(c.get_id() for c in pc))
                if k in seen:
                    continue
                seen.add(k)
                obls.append((kind, neg, tag, pc, variables))
                owner.append(li)
            post = item.get('post')
            if post is not None:
                for (tag, neg) in post(item, dict((t, v) for (t, v) in lf.obs), lf):
                    obls.append(('spec', neg, tag, list(lf.pc), variables))
                    owner.append(li)
                    if tag not in out.setdefault('spec_tags', []):
                        out['spec_tags'].append(tag)
            out['contracts_used'] = out.get('contracts_used', 0) + lf.user.get('contracts_used', 0)
            if not reach:
                # reachability twin: the path that reaches the end of the harness is feasible
                rr = solve.solve(list(lf.pc), variables, quick_ms=item.get('quick_ms', 2000),
                                 timeout=item.get('timeout', 60), workdir=os.path.dirname(_W['bc']))
                if rr.status == 'sat':
                    reach = True
                    out['reach_model'] = rr.model
                    # engine-vs-native validation point: the observations of this path under the model
                    try:
                        subs = [(t, z3.BitVecVal(rr.model.get(t.decl().name(), 0), t.size())) for (_, t, _) in lf.nondet]
                        exp = []
                        for (tag, v) in lf.obs:
                            if isinstance(v, (int, bytes)):
                                exp.append((tag, v if isinstance(v, int) else v.decode('latin1')))
                            elif isinstance(v, tuple):
                                continue
                            else:
                                g = z3.simplify(z3.substitute(v, *subs)) if subs else z3.simplify(v)
                                if z3.is_bv_value(g):
                                    exp.append((tag, g.as_long()))
                                elif z3.is_true(g) or z3.is_false(g):
                                    exp.append((tag, 1 if z3.is_true(g) else 0))
                        out['validate'] = {'nondet': [(n, rr.model.get(t.decl().name(), 0), b) for (n, t, b) in lf.nondet], 'obs': exp}
                    except Exception:  # noqa
                        pass
        out['reach_ok'] = reach
        # phase 1 (here): in-process z3 with a short timeout; undecided obligations are written out as
        # SMT-LIB2 files and discharged by the external portfolio in the parent (phase 2, all cores)
        import tempfile
        quick_ms = item.get('quick_ms', 2000)
        for (o, li) in zip(obls, owner):
            lf = leaves[li]
            kind, neg, tag, pc, variables = o
            t1 = time.time()
            rec = {'kind': kind, 'tag': tag, 'status': 'pending', 'solver': None, 'time': 0.0, 'detail': '',
                   'nondet_decl': [(n, t.decl().name(), b) for (n, t, b) in lf.nondet]}
            s = z3.Solver()
            s.set('timeout', quick_ms)
            for f in pc:
                s.add(f)
            s.add(neg)
            res = str(s.check())
            if res == 'unsat' and not item.get('diff', False):
                rec.update(status='unsat', solver='z3-py')
            elif res == 'sat':
                m = s.model()
                rec.update(status='sat', solver='z3-py')
                rec['nondet'] = [(n, m.eval(t, model_completion=True).as_long(), b) for (n, t, b) in lf.nondet]
            else:
                fd, path = tempfile.mkstemp(suffix='.smt2', dir=os.path.dirname(_W['bc']))
                with os.fdopen(fd, 'w') as f:
                    f.write(solve.to_smt2(list(pc) + [neg], variables))
                rec['file'] = path
            rec['time'] = round(time.time() - t1, 3)
            out['obligations'].append(rec)
        if obls:
            k, neg, tag, pc, _ = obls[-1]
            out['samples'].append({'tag': tag, 'kind': k, 'pc_terms': len(pc),
                                   'negated_property': neg.sexpr()[:400]})
    except engine.EngineError as e:
        out['error'] = 'engine: %s' % e
    except loader.Unsupported as e:
        out['error'] = 'unsupported: %s' % e
    except Exception as e:  # noqa
        out['error'] = 'exception: %s\n%s' % (e, traceback.format_exc())
    out['wall'] = round(time.time() - t0, 2)
    return out


class KernelCheck(object):
    """Runs a set of harness entries (work items), replays counterexamples, writes evidence."""

    def __init__(self, args, harnesses, with_zonedb=False, with_zonedbx=False, level='model_checking'):
        self.a = args
        self.prop = args.prop
        self.harnesses = [os.path.join(VERIF, 'harness', h) for h in harnesses]
        self.with_zonedb = with_zonedb
        self.with_zonedbx = with_zonedbx
        self.level = level
        self.t0 = time.time()
        self.wd = build.workdir(self.prop)
        self.bc = None
        self._native = {}
        self.results = []
        self.violations = []     # (key, description, replay path)
        self.known = []
        self.inconclusive = []
        self.assumptions = [SHIM_NOTE, LP64_NOTE, ENGINE_NOTE]
        self.extra_coverage = {}
        self.spec_concrete = lambda r, tag, nondet, obs: False
        self.ext_jobs = 6

    def build(self):
        self.bc = build.build_ir(self.harnesses, self.wd, with_zonedb=self.with_zonedb,
                                 with_zonedbx=self.with_zonedbx)
        return self.bc

    def native(self, sanitize):
        if sanitize not in self._native:
            self._native[sanitize] = build.build_native(self.harnesses, self.wd, sanitize=sanitize,
                                                        with_zonedb=self.with_zonedb,
                                                        with_zonedbx=self.with_zonedbx)
        return self._native[sanitize]

    def run_items(self, items, jobs=None, fn=run_kernel_item, eng_opts=None):
        if self.a.only:
            pats = self.a.only.split(',')
            items = [it for it in items if any(p in it['name'] for p in pats)]
        jobs = self.a.jobs or jobs or 8
        ctx = multiprocessing.get_context('fork')
        with ctx.Pool(min(jobs, max(1, len(items))), initializer=_worker_init,
                      initargs=(self.bc, eng_opts or {})) as pool:
            res = []
            for r in pool.imap_unordered(fn, items, chunksize=1):
                res.append(r)
                if os.environ.get('VERIF_VERBOSE'):
                    st = {}
                    for o in r.get('obligations', []):
                        st[o['status']] = st.get(o['status'], 0) + 1
                    slow = sorted(((o['time'], o['tag'], o['solver']) for o in r.get('obligations', [])), reverse=True)[:4]
                    print('[item] %s wall=%s paths=%s obl=%s err=%s slow=%s' % (
                        r['name'], r.get('wall'), r.get('paths'), st, r.get('error'), slow), flush=True)
        res.sort(key=lambda r: r['name'])
        self._phase2(res, items)
        self.results.extend(res)
        return res

    def _phase2(self, res, items):
        """External portfolio on every obligation the in-process solver left undecided."""
        from concurrent.futures import ThreadPoolExecutor
        tmo = dict((it['name'], it.get('timeout', 60)) for it in items)
        dif = dict((it['name'], it.get('diff', False)) for it in items)
        pend = [(r, o) for r in res for o in r.get('obligations', []) if o['status'] == 'pending']

        def ext(ro):
            r, o = ro
            t1 = time.time()
            try:
                if dif[r['name']]:
                    # all back ends in parallel, each until it answers or the cap: answers must agree
                    status, solver, txt, answers = solve._run_external(o['file'], min(tmo[r['name']], 120), wait_all=True)
                    o['detail'] = str(answers)
                    if status == 'unknown':
                        # nobody answered inside the diff window: ordinary portfolio with the full cap
                        status, solver, txt = solve._run_external(o['file'], tmo[r['name']])
                else:
                    status, solver, txt = solve._run_external(o['file'], tmo[r['name']])
            finally:
                try:
                    os.unlink(o['file'])
                except OSError:
                    pass
            o['status'], o['solver'] = status, solver
            o['time'] = round(o['time'] + time.time() - t1, 3)
            if status == 'sat':
                vals = solve._parse_values(txt)
                o['nondet'] = [(n, vals.get(dn, 0), b) for (n, dn, b) in o['nondet_decl']]
            if os.environ.get('VERIF_VERBOSE'):
                print('[ext] %s %s %s -> %s by %s in %.1fs' % (r['name'], o['kind'], o['tag'][:60], status, solver,
                                                              o['time']), flush=True)

        with ThreadPoolExecutor(self.ext_jobs) as ex:
            list(ex.map(ext, pend))
        for r in res:
            for o in r.get('obligations', []):
                o.pop('nondet_decl', None)
                o.pop('file', None)

    # -- judging ------------------------------------------------------------
    def judge_kernel(self, res):
        """Turn worker results into violations / inconclusives; replays counterexamples."""
        for r in res:
            if r['error']:
                self.inconclusive.append('%s: %s' % (r['name'], r['error']))
                continue
            if not r['reach_ok']:
                self.inconclusive.append('%s: reachability twin failed (no feasible path reaches the end '
                                         'of the harness)' % r['name'])
            self._validate_against_native(r)
            for d in r['defects']:
                self._judge_defect(r, d)
            for o in r['obligations']:
                if o['status'] == 'unsat':
                    continue
                if o['status'] == 'sat':
                    self._judge_sat(r, o)
                else:
                    self.inconclusive.append('%s: obligation %s %s -> %s %s' % (
                        r['name'], o['kind'], o['tag'], o['status'], o.get('detail', '')))

    def _validate_against_native(self, r):
        """One concrete point per work item: the engine's observations under a model of a complete path must equal what
        the natively compiled harness prints for the same inputs (guards the IR translation / engine)."""
        v = r.get('validate')
        if not v:
            return
        if not v['obs']:
            # no observations in this harness: compare the assertion outcomes instead (every obligation of the item was
            # discharged, so the native run on a model of a complete path must not report a failed assertion)
            if r['obligations'] and all(o['status'] == 'unsat' for o in r['obligations']):
                try:
                    rc, lines, err = self._replay(r['entry'], r['args'], v['nondet'], False, r.get('params'))
                except Exception:  # noqa
                    return
                bad = [ln for ln in lines if ln.startswith('ASSERT-FAILED')]
                if rc == 0 and not bad:
                    self.validated = getattr(self, 'validated', 0) + 1
                elif bad:
                    self.inconclusive.append('%s: native build fails %s on inputs %s although every obligation was discharged' % (
                        r['name'], bad[0], [(n, x) for (n, x, _) in v['nondet']]))
            return
        try:
            rc, lines, err = self._replay(r['entry'], r['args'], v['nondet'], False, r.get('params'))
        except Exception as e:  # noqa
            self.inconclusive.append('%s: native validation run failed: %s' % (r['name'], e))
            return
        if rc != 0:
            self.inconclusive.append('%s: native validation run exited with %s (engine path was ok): %s' % (r['name'], rc, lines[-2:]))
            return
        got = []
        for ln in lines:
            p = ln.split(' ')
            if p[0] == 'OBS':
                got.append((p[1], int(p[2]) & 0xffffffffffffffff))
            elif p[0] == 'OBSS':
                got.append((p[1], ln.split(' ', 2)[2] if len(p) > 2 else ''))
        want = [(t, (x & 0xffffffffffffffff) if isinstance(x, int) else x) for (t, x) in v['obs']]
        gi = 0
        ok = True
        for (t, x) in want:
            while gi < len(got) and got[gi][0] != t:
                gi += 1
            if gi >= len(got) or got[gi][1] != x:
                # widths below 64 bit: compare modulo the narrower of the two renderings
                if gi < len(got) and isinstance(x, int) and isinstance(got[gi][1], int) and (got[gi][1] - x) % (1 << 8) == 0 and x < (1 << 8):
                    gi += 1
                    continue
                ok = False
                break
            gi += 1
        if ok:
            self.validated = getattr(self, 'validated', 0) + 1
        else:
            self.inconclusive.append('%s: engine and native build disagree on a concrete point: inputs %s, engine %s, native %s' % (
                r['name'], [(n, x) for (n, x, _) in v['nondet']], want[:6], got[:6]))

    def _replay(self, entry, args, nondet, sanitize, params=None):
        binp = self.native(sanitize)
        return build.run_native(binp, entry, args, [v for (_, v, _) in nondet], params=params)

    def _judge_sat(self, r, o):
        nondet = o['nondet']
        if o['kind'] == 'assert':
            rc, lines, err = self._replay(r['entry'], r['args'], nondet, False, r.get('params'))
            confirmed = ('ASSERT-FAILED ' + o['tag']) in lines
            key = '%s:assert:%s' % (r['entry'], o['tag'])
            what = 'assertion %s fails in %s%s with %s' % (o['tag'], r['entry'], tuple(r['args']),
                                                           [(n, v) for (n, v, _) in nondet])
        elif o['kind'] == 'contract-pre':
            # the contract does not cover this input: fall back to the real code on the concrete input
            rc, lines, err = self._replay(r['entry'], r['args'], nondet, False, r.get('params'))
            failed = [ln.split(' ', 1)[1] for ln in lines if ln.startswith('ASSERT-FAILED ')]
            obs = parse_obs(lines)
            nd = dict((n, v) for (n, v, _) in nondet)
            specfail = [t for t in r.get('spec_tags', []) if rc == 0 and self.spec_concrete(r, t, nd, obs)]
            if failed or specfail:
                tag = (failed + specfail)[0]
                kind = 'assert' if failed else 'spec'
                key = '%s:%s:%s' % (r['entry'], kind, tag)
                what = '%s %s fails in %s%s with %s (found through failing contract precondition "%s")' % (
                    kind, tag, r['entry'], tuple(r['args']), [(n, v) for (n, v, _) in nondet], o['tag'])
                self._record(key, what, True, {'entry': r['entry'], 'args': r['args'], 'nondet': nondet,
                                               'obligation': o, 'replay_stdout': lines[-10:], 'replay_rc': rc})
                return
            self.inconclusive.append('%s: contract precondition "%s" can fail with %s (the contract does not '
                                     'cover this call)' % (r['name'], o['tag'], [(n, v) for (n, v, _) in nondet]))
            return
        elif o['kind'] == 'spec':
            rc, lines, err = self._replay(r['entry'], r['args'], nondet, False, r.get('params'))
            obs = parse_obs(lines)
            confirmed = rc == 0 and bool(self.spec_concrete(r, o['tag'], dict((n, v) for (n, v, _) in nondet), obs))
            key = '%s:spec:%s' % (r['entry'], o['tag'])
            what = 'specification %s violated in %s%s with %s: observed %s' % (
                o['tag'], r['entry'], tuple(r['args']), [(n, v) for (n, v, _) in nondet], obs)
        else:
            rc, lines, err = self._replay(r['entry'], r['args'], nondet, True, r.get('params'))
            confirmed = rc not in (0, 3, 4) and ('runtime error' in err or 'AddressSanitizer' in err or rc == 'timeout')
            key = '%s:UB:%s' % (r['entry'], site_key(o['tag']))
            what = 'undefined behaviour (sanitizer trap) at %s in %s%s with %s' % (
                o['tag'], r['entry'], tuple(r['args']), [(n, v) for (n, v, _) in nondet])
        self._record(key, what, confirmed, {'entry': r['entry'], 'args': r['args'], 'nondet': nondet,
                                           'obligation': o, 'replay_stdout': lines[-10:],
                                           'replay_stderr': err[-1500:], 'replay_rc': rc})

    def _judge_defect(self, r, d):
        if d.get('solver') != 'sat':
            self.inconclusive.append('%s: defect %s with solver status %s' % (r['name'], d['msg'], d.get('solver')))
            return
        nondet = d['model']
        rc, lines, err = self._replay(r['entry'], r['args'], nondet, True, r.get('params'))
        confirmed = rc not in (0, 3, 4) and ('runtime error' in err or 'AddressSanitizer' in err
                                             or rc == 'timeout' or (isinstance(rc, int) and rc < 0))
        key = '%s:%s:%s' % (r['entry'], d['kind'], site_key(d['where']))
        what = '%s: %s at %s in %s%s with %s' % (d['kind'], d['msg'], d['where'], r['entry'], tuple(r['args']),
                                                [(n, v) for (n, v, _) in nondet])
        self._record(key, what, confirmed, {'entry': r['entry'], 'args': r['args'], 'nondet': nondet,
                                           'defect': d, 'replay_stdout': lines[-10:],
                                           'replay_stderr': err[-1500:], 'replay_rc': rc})

    def _record(self, key, what, confirmed, payload):
        if not confirmed:
            payload['key'] = key
            p = write_replay(self.prop, 'unreproduced-' + _safe(key), payload)
            self.inconclusive.append('counterexample did not reproduce natively (%s): %s' % (p, what))
            return
        kf = match_known(self.prop, key)
        if kf is not None:
            if key not in [k for k, _ in self.known]:
                self.known.append((key, kf.get('what', what)))
            return
        if key in [k for k, _, _ in self.violations]:
            return
        payload['key'] = key
        payload['what'] = what
        p = write_replay(self.prop, _safe(key), payload)
        self.violations.append((key, what, p))

    # -- finishing ------------------------------------------------------------
    def finish(self, coverage, extra_assumptions=()):
        wall = time.time() - self.t0
        coverage = dict(coverage)
        coverage.update(self.extra_coverage)
        coverage.setdefault('known_findings', [k for k, _ in self.known])
        coverage.setdefault('inconclusive', self.inconclusive[:20])
        coverage.setdefault('violations_found', [w for _, w, _ in self.violations][:20])
        write_evidence(self.prop, self.a.tier, self.a.seed, self.level, coverage,
                       self.assumptions + list(extra_assumptions), wall, len(self.violations))
        build.cleanup(self.wd)
        for k, w in self.known:
            print('KNOWN-FINDING: property=%s %s' % (self.prop, w))
        for k, w, p in self.violations:
            print('VIOLATION property=%s replay=%s' % (self.prop, p))
            print('  ' + w)
        for m in self.inconclusive:
            print('INCONCLUSIVE: ' + m)
        if self.violations:
            sys.exit(EXIT_VIOLATION)
        if self.inconclusive:
            sys.exit(EXIT_INCONCLUSIVE)
        print('OK property=%s tier=%s wall=%.1fs' % (self.prop, self.a.tier, wall))
        sys.exit(EXIT_OK)

    def kernel_coverage(self, rule, bounds, outside):
        """Standard coverage block for kernel-lemma checks."""
        obl = [o for r in self.results for o in r['obligations']]
        funcs = sorted(set(f for r in self.results for f in r['functions']
                           if not f.startswith('__verif') and not f.startswith('llvm.')))
        solver_time = {}
        for o in obl:
            solver_time[o['solver'] or 'none'] = round(solver_time.get(o['solver'] or 'none', 0) + o['time'], 2)
        samples = []
        for r in self.results[:6]:
            for s in r['samples']:
                samples.append(dict(s, item=r['name'], args=r['args']))
        n_unsat = sum(1 for o in obl if o['status'] == 'unsat')
        return {
            'states': max(1, sum(r['paths'] for r in self.results)),
            'transitions': max(1, sum(r['steps'] for r in self.results)),
            'traces_validated_against_impl': getattr(self, 'validated', 0),
            'samples': samples or [{'note': 'no obligations'}],
            'evaluations': len(obl),
            'distinct_nontrivial': len(set((r['name'], o['kind'], o['tag'], i)
                                           for r in self.results for i, o in enumerate(r['obligations']))),
            'rule': rule,
            'obligations': len(obl), 'discharged_unsat': n_unsat,
            'queries_sat': sum(1 for o in obl if o['status'] == 'sat'),
            'queries_unknown': sum(1 for o in obl if o['status'] not in ('sat', 'unsat')),
            'solver_time_s': solver_time,
            'paths': sum(r['paths'] for r in self.results),
            'ir_steps': sum(r['steps'] for r in self.results),
            'work_items': [{'name': r['name'], 'entry': r['entry'], 'args': r['args'], 'paths': r['paths'],
                            'obligations': len(r['obligations']), 'wall_s': r['wall'],
                            'reach_ok': r['reach_ok']} for r in self.results],
            'functions_encoded': funcs,
            'ir_flags': ' '.join(build.IR_FLAGS),
            'bounds': bounds, 'outside_bounds': outside,
            'notes': sorted(set(n for r in self.results for n in r['notes']))[:20],
        }


def site_key(tag):
    """'function:file line N' or 'function (file:N)' -> 'function|<source text of that line>' so that the key
    survives line-number shifts but still names the statement."""
    import re
    m = re.match(r'^(\S+?)[: ]\(?(/[^ :]+)(?: line |:)(\d+)\)?', tag)
    if not m:
        return tag
    fn, path, line = m.group(1), m.group(2), int(m.group(3))
    text = ''
    try:
        with open(os.path.normpath(path)) as f:
            text = f.readlines()[line - 1].strip()
    except Exception:
        pass
    return '%s|%s' % (fn, text)


def parse_obs(lines):
    obs = {}
    for ln in lines:
        p = ln.split(' ')
        if p[0] == 'OBS':
            obs[p[1]] = int(p[2])
        elif p[0] == 'OBSS':
            obs[p[1]] = ln.split(' ', 2)[2] if len(p) > 2 else ''
        elif p[0] == 'OBSB':
            obs[p[1]] = [int(x) for x in p[2:]]
    return obs


def _safe(s):
    return ''.join(c if c.isalnum() or c in '-_.' else '_' for c in s)[:120]


def simple_kernel_main(prop, harnesses, items_fn, rule, bounds_fn, outside, extra_assumptions=(), with_zonedb=False,
                       with_zonedbx=False, jobs=8, spec_concrete=None, pre=None, post_run=None):
    """Boiler-plate main() for kernel-lemma checks: items_fn(args, thorough) -> work items."""
    a = parse_args(prop)
    kc = KernelCheck(a, harnesses, with_zonedb=with_zonedb, with_zonedbx=with_zonedbx)
    if spec_concrete is not None:
        kc.spec_concrete = spec_concrete
    if pre is not None:
        pre(kc)
    kc.build()
    thorough = a.tier == 'thorough'
    items = items_fn(a, thorough)
    res = kc.run_items(items, jobs=jobs)
    kc.judge_kernel(res)
    if post_run is not None:
        post_run(kc)
    cov = kc.kernel_coverage(rule=rule, bounds=bounds_fn(a, thorough), outside=outside)
    kc.finish(cov, list(extra_assumptions))
