#!/usr/bin/env python3
"""C20 — generated artefacts are deterministic and mutually consistent.

(1) Rendering is lossless (symbolic): PythonGenerator's item functions are run by pysym with every numeric field a
    symbolic integer; the rendered Python source is parsed with ast, tokens are mapped back to terms and compared with
    the in-memory fields by SMT - for all field values at once.
(2) Per program (the C03 programs) x scope: the Python-language tables, imported, equal the in-memory tables (tzdb.json);
    zones.txt equals the emitted set; header counts equal the entries; every basic zone is an extended zone and its
    generated C++ tables decode (library brokers) to the same eras and rules in both scopes.
(3) Determinism: NOT decided by this technique (it quantifies over interpreter hash seeds, not program inputs); as a
    smoke test each configuration is compiled in two interpreters with different PYTHONHASHSEED and the outputs diffed."""
import sys
import os
import re
import ast
import json
import time
import importlib.util
sys.path.insert(0, os.path.dirname(os.path.abspath(__file__)))
import common  # noqa: E402
import pipeline  # noqa: E402
import z3  # noqa: E402
from llsym import build  # noqa: E402


def symbolic_rendering(kc, stats):
    sys.path.insert(0, os.path.join(build.REPO, 'tools'))
    import pysym
    from pysym import SymInt
    from zonedb import pygenerator as pg
    g = pg.PythonGenerator.__new__(pg.PythonGenerator)
    Int = z3.Int

    def check(tag, text_fn, fields, py_names):
        paths = pysym.explore(text_fn)
        for p in paths:
            stats['paths'] += 1
            if p.exception is not None:
                kc._record('render:%s:raises' % tag, 'PythonGenerator %s raises %r' % (tag, p.exception), True, {})
                continue
            src = p.result
            # the rendered item is Python source: evaluate it with tokens bound to their terms
            names = dict((k, pysym.SymInt(v)) for k, v in p.tokens.items())
            import textwrap
            try:
                tree = ast.parse(src)
            except SyntaxError:
                tree = ast.parse('[\n' + textwrap.dedent(src) + '\n]')
            found = None
            for node in ast.walk(tree):
                if isinstance(node, ast.Dict) and all(isinstance(k, ast.Constant) for k in node.keys) and \
                        set(k.value for k in node.keys) >= set(py_names.values()):
                    found = node
                    break
            if found is None:
                kc._record('render:%s:shape' % tag, 'rendered %s item has no dict with the expected keys' % tag, True, {'text': src[:300]})
                continue
            rendered = {}
            for k, v in zip(found.keys, found.values):
                if isinstance(v, ast.Name) and v.id in p.tokens:
                    rendered[k.value] = p.tokens[v.id]
                elif isinstance(v, ast.UnaryOp) and isinstance(v.op, ast.USub) and isinstance(v.operand, ast.Name) and v.operand.id in p.tokens:
                    rendered[k.value] = -p.tokens[v.operand.id]
                elif isinstance(v, ast.Constant):
                    rendered[k.value] = v.value
                else:
                    rendered[k.value] = ast.dump(v)
            for fname, term in fields.items():
                key = py_names[fname]
                got = rendered.get(key)
                stats['queries'] += 1
                if isinstance(got, z3.ExprRef):
                    s = z3.Solver()
                    s.add(*p.pc)
                    s.add(got != term)
                    r = str(s.check())
                else:
                    r = 'sat'
                stats[r] = stats.get(r, 0) + 1
                if r != 'unsat':
                    kc._record('render:%s:%s' % (tag, fname), 'PythonGenerator %s item: field %s rendered as %s, in-memory value is %s' % (
                        tag, key, got, term), True, {})
            for sname, sval in (('format', 'FMT%s'), ('untilTimeSuffix', 's'), ('atTimeSuffix', 'u'), ('letter', 'LTR')):
                if sname in rendered and rendered[sname] != sval:
                    kc._record('render:%s:%s' % (tag, sname), 'PythonGenerator %s item: string field %s rendered as %r' % (
                        tag, sname, rendered[sname]), True, {})

    era_f = dict((n, Int(n)) for n in ('offsetSecondsTruncated', 'rulesDeltaSecondsTruncated', 'untilYear', 'untilMonth', 'untilDay',
                                       'untilSecondsTruncated'))
    check('era', lambda: g._generate_era_item(dict(dict((k, SymInt(v)) for k, v in era_f.items()), rules='-', format='FMT%s',
                                                   untilTimeSuffix='s', rawLine='raw')),
          era_f, {'offsetSecondsTruncated': 'offsetSeconds', 'rulesDeltaSecondsTruncated': 'rulesDeltaSeconds', 'untilYear': 'untilYear',
                  'untilMonth': 'untilMonth', 'untilDay': 'untilDay', 'untilSecondsTruncated': 'untilSeconds'})
    rule_f = dict((n, Int(n)) for n in ('fromYear', 'toYear', 'inMonth', 'onDayOfWeek', 'onDayOfMonth', 'atSecondsTruncated',
                                        'deltaSecondsTruncated'))
    check('rule', lambda: g._generate_policy_item('Pol', [dict(dict((k, SymInt(v)) for k, v in rule_f.items()), atTimeSuffix='u',
                                                                  letter='LTR', rawLine='raw')]),
          rule_f, {'fromYear': 'fromYear', 'toYear': 'toYear', 'inMonth': 'inMonth', 'onDayOfWeek': 'onDayOfWeek',
                   'onDayOfMonth': 'onDayOfMonth', 'atSecondsTruncated': 'atSeconds', 'deltaSecondsTruncated': 'deltaSeconds'})


def load_py_tables(d):
    pkg = 'zdbgen_%d_%d' % (os.getpid(), int(time.time() * 1000) % 100000)
    os.makedirs(os.path.join(d, pkg))
    for f in ('zone_infos.py', 'zone_policies.py'):
        os.replace(os.path.join(d, f), os.path.join(d, pkg, f))
    open(os.path.join(d, pkg, '__init__.py'), 'w').close()
    sys.path.insert(0, d)
    try:
        zi = importlib.import_module(pkg + '.zone_infos')
        zp = importlib.import_module(pkg + '.zone_policies')
    finally:
        sys.path.remove(d)
    return zi, zp


def consistency(kc, name, text, scope, rep):
    tag = '%s_%s' % (name, scope)
    indir = os.path.join(kc.wd, 'in_' + tag)
    pipeline.write_input_dir(text, indir)
    outs = {}
    for lang in ('python', 'arduino'):
        for seed in (1, 2):
            parent = os.path.join(kc.wd, 'det_%s_%s_%d' % (tag, lang, seed))
            os.makedirs(parent)
            # identical argv in both runs (relative output dir, same cwd name is not part of argv)
            env = dict(os.environ, PYTHONPATH=os.path.join(build.REPO, 'tools'), PYTHONHASHSEED=str(seed))
            import subprocess
            os.makedirs(os.path.join(parent, 'out'))
            p = subprocess.run([sys.executable, os.path.join(build.REPO, 'tools', 'tzcompiler.py'), '--input_dir', indir, '--scope', scope,
                                '--start_year', '2000', '--until_year', '2050', '--action', 'zonedb,zonelist,tzdb', '--language', lang,
                                '--tz_version', 'verif', '--output_dir', 'out'], cwd=parent, env=env, stdout=subprocess.PIPE,
                               stderr=subprocess.STDOUT, text=True)
            if p.returncode != 0:
                kc._record('compiler-fails:%s:%s' % (tag, lang), 'tzcompiler fails: %s' % p.stdout[-300:], True, {})
                return
            outs[(lang, seed)] = os.path.join(parent, 'out')
        a, b = outs[(lang, 1)], outs[(lang, 2)]
        for f in sorted(os.listdir(a)):
            rep['files_compared'] += 1
            ta, tb = open(os.path.join(a, f)).read(), open(os.path.join(b, f)).read()
            if ta != tb:
                # differences confined to the order of several reasons inside one comment are allowed by the statement
                la, lb = ta.splitlines(), tb.splitlines()
                bad = [(x, y) for x, y in zip(la, lb) if x != y and not (x.lstrip().startswith(('#', '//')) and sorted(x) == sorted(y))]
                if bad or len(la) != len(lb):
                    kc._record('determinism:%s:%s:%s' % (tag, lang, f), 'program %s (%s, %s): %s differs between two runs (PYTHONHASHSEED 1 vs 2): %r vs %r' % (
                        name, scope, lang, f, (bad or [('', '')])[0][0][:80], (bad or [('', '')])[0][1][:80]), True, {})
    # Python tables == in-memory tables
    d = outs[('python', 1)]
    tz = json.load(open(os.path.join(d, 'tzdb.json')))
    zi, zp = load_py_tables(d)
    zmap = zi.ZONE_INFO_MAP
    if set(zmap.keys()) != set(tz['zones_map'].keys()):
        kc._record('pytables:zones:%s' % tag, 'python ZONE_INFO_MAP keys differ from the in-memory zones: %s' % sorted(set(zmap) ^ set(tz['zones_map']))[:5], True, {})
    EMAP = {'offsetSeconds': 'offsetSecondsTruncated', 'rulesDeltaSeconds': 'rulesDeltaSecondsTruncated', 'format': 'format',
            'untilYear': 'untilYear', 'untilMonth': 'untilMonth', 'untilDay': 'untilDay', 'untilSeconds': 'untilSecondsTruncated',
            'untilTimeSuffix': 'untilTimeSuffix'}
    RMAP = {'fromYear': 'fromYear', 'toYear': 'toYear', 'inMonth': 'inMonth', 'onDayOfWeek': 'onDayOfWeek', 'onDayOfMonth': 'onDayOfMonth',
            'atSeconds': 'atSecondsTruncated', 'atTimeSuffix': 'atTimeSuffix', 'deltaSeconds': 'deltaSecondsTruncated', 'letter': 'letter'}
    n_eras = 0
    for zn, eras in tz['zones_map'].items():
        pe = zmap.get(zn, {}).get('eras', [])
        if len(pe) != len(eras):
            kc._record('pytables:eracount:%s:%s' % (tag, zn), 'zone %s: %d eras in python tables, %d in memory' % (zn, len(pe), len(eras)), True, {})
            continue
        for x, y in zip(pe, eras):
            n_eras += 1
            rep['entries_compared'] += 1
            for k, k2 in EMAP.items():
                if x[k] != y[k2]:
                    kc._record('pytables:era:%s:%s:%s' % (tag, zn, k), 'zone %s era field %s: python table %r, in-memory %r' % (zn, k, x[k], y[k2]), True, {})
            pol = x['zonePolicy']
            want = y['rules']
            got = pol if isinstance(pol, str) else pol['name']
            from tzdb.transformer import normalize_name as _nn
            if got != (want if want in ('-', ':') else _nn(want)):
                kc._record('pytables:era-policy:%s:%s' % (tag, zn), 'zone %s era policy %r vs %r' % (zn, got, want), True, {})
    sys.path.insert(0, os.path.join(build.REPO, 'tools'))
    from tzdb.transformer import normalize_name
    pmap = zp.ZONE_POLICY_MAP
    if set(pmap.keys()) != set(normalize_name(k) for k in tz['rules_map'].keys()):
        kc._record('pytables:policies:%s' % tag, 'python ZONE_POLICY_MAP keys differ from the in-memory policies', True, {})
    n_rules = 0
    for pn, rules in tz['rules_map'].items():
        pr = pmap.get(normalize_name(pn), {}).get('rules', [])
        if len(pr) != len(rules):
            kc._record('pytables:rulecount:%s:%s' % (tag, pn), 'policy %s: %d rules in python tables, %d in memory' % (pn, len(pr), len(rules)), True, {})
            continue
        for x, y in zip(pr, rules):
            n_rules += 1
            rep['entries_compared'] += 1
            for k, k2 in RMAP.items():
                if x[k] != y[k2]:
                    kc._record('pytables:rule:%s:%s:%s' % (tag, pn, k), 'policy %s rule field %s: python %r, in-memory %r' % (pn, k, x[k], y[k2]), True, {})
    # header counts
    for f, pats in (('zone_infos.py', (('numInfos', len(tz['zones_map'])), ('numEras', n_eras))),
                    ('zone_policies.py', (('numPolicies', len(tz['rules_map'])), ('numRules', n_rules)))):
        # (files were moved into the package directory by load_py_tables)
        pk = [x for x in os.listdir(d) if x.startswith('zdbgen_')][0]
        txt = open(os.path.join(d, pk, f)).read()
        for key, val in pats:
            m = re.search(r'^# %s: (\d+)' % key, txt, re.M)
            if not m or int(m.group(1)) != val:
                kc._record('counts:%s:%s' % (tag, key), 'program %s (%s): header %s says %s, entries are %d' % (name, scope, key, m.group(1) if m else None, val), True, {})
    listed = [ln.strip() for ln in open(os.path.join(d, 'zones.txt')) if ln.strip() and not ln.startswith('#')]
    if set(listed) != set(tz['zones_map'].keys()):
        kc._record('zonelist:%s' % tag, 'program %s (%s): zones.txt differs from the emitted zones' % (name, scope), True, {})
    rep['emitted'][tag] = sorted(tz['zones_map'].keys())
    return outs[('arduino', 1)], tz


def truncated_zones(tz):
    t = set(z for z, notes in tz['notable_zones'].items() if any('truncated' in n for n in notes))
    tpol = set(p for p, notes in tz['notable_policies'].items() if any('truncated' in n for n in notes))
    for z, eras in tz['zones_map'].items():
        if any(e.get('rules') in tpol for e in eras):
            t.add(z)
    return t


def cross_scope_tables(kc, name, gen, rep):
    """Both scopes' generated C++ tables of one program, compiled with the library and decoded through the library's own
    brokers (native dumper h_c20.cpp): every zone emitted in both scopes and carrying no truncation note must decode to the
    same eras and rules - the two processors are then given the same TZ data (their agreement on equal data is C02)."""
    import shutil
    dst = os.path.join(kc.wd, 'src_both_' + name)
    shutil.copytree(os.path.join(build.REPO, 'src'), dst)
    for scope, db in (('basic', 'zonedb'), ('extended', 'zonedbx')):
        for f in ('zone_infos.h', 'zone_infos.cpp', 'zone_policies.h', 'zone_policies.cpp', 'zone_registry.h', 'zone_registry.cpp'):
            shutil.copy(os.path.join(gen[scope][0], f), os.path.join(dst, 'ace_time', db, f))
    wd2 = os.path.join(kc.wd, 'nat_both_' + name)
    os.makedirs(wd2)
    try:
        exe = build.build_native([os.path.join(build.VERIF, 'harness', 'h_c20.cpp')], wd2, src_root=dst, out='c20dump')
    except RuntimeError as e:
        kc._record('generated-tables-do-not-compile:%s' % name, 'program %s: the generated tables of the two scopes do not compile '
                   'with the library: %s' % (name, str(e)[-400:]), True, {})
        shutil.rmtree(dst, ignore_errors=True)
        return
    dumps = {}
    for scope, arg in (('basic', 0), ('extended', 1)):
        rc, lines, err = build.run_native(exe, 'c20_dump', [arg], [], timeout=120)
        if rc != 0:
            kc.inconclusive.append('c20_dump %s %s: exit %s %s' % (name, scope, rc, err[-200:]))
            return
        d = {}
        for ln in lines:
            p = ln.split(' ', 3)
            if p[0] == 'OBSS' and len(p) == 4:
                d.setdefault(p[2], []).append((p[1], p[3]))
        dumps[scope] = d
    shutil.rmtree(dst, ignore_errors=True)
    shutil.rmtree(wd2, ignore_errors=True)
    skip = truncated_zones(gen['basic'][1]) | truncated_zones(gen['extended'][1])
    shared = sorted((set(dumps['basic']) & set(dumps['extended'])) - skip)
    rep['cross_scope'][name] = {'shared_zones': len(shared), 'skipped_truncated': sorted(skip & set(dumps['basic'])),
                                'records': sum(len(dumps['basic'][z]) for z in shared)}
    for z in shared:
        b, x = dumps['basic'][z], dumps['extended'][z]
        rep['entries_compared'] += len(b)
        if b != x:
            k = next((i for i, (u, v) in enumerate(zip(b, x)) if u != v), min(len(b), len(x)))
            kc._record('cross-scope:%s:%s' % (name, z), 'program %s: zone %s decodes differently from the generated basic and extended '
                       'tables (no truncation note): basic %r, extended %r' % (
                           name, z, b[k] if k < len(b) else None, x[k] if k < len(x) else None), True,
                       {'zone': z, 'basic': b[k] if k < len(b) else None, 'extended': x[k] if k < len(x) else None})


def main():
    a = common.parse_args('C20')
    kc = common.KernelCheck(a, ['h_zone.cpp'], with_zonedb=True, with_zonedbx=True, level='other')
    stats = {'paths': 0, 'queries': 0}
    symbolic_rendering(kc, stats)
    rep = {'files_compared': 0, 'entries_compared': 0, 'emitted': {}, 'cross_scope': {}}
    programs = [('synthetic', pipeline.synthetic_source()), ('reconstructed', pipeline.reconstructed_source())]
    for name, text in programs:
        gen = {}
        for scope in ('extended', 'basic'):
            gen[scope] = consistency(kc, name, text, scope, rep)
        if gen['extended'] and gen['basic']:
            cross_scope_tables(kc, name, gen, rep)
        b, x = set(rep['emitted'].get(name + '_basic', [])), set(rep['emitted'].get(name + '_extended', []))
        if not b <= x:
            kc._record('basic-not-subset:%s' % name, 'program %s: basic zones not emitted in extended scope: %s' % (name, sorted(b - x)[:5]), True, {})
    kc.results = []
    cov = {
        'explanation': ('(1) symbolic: the real PythonGenerator item renderers executed by pysym with all numeric fields symbolic; the '
                        'rendered source is parsed with ast and each rendered field compared with the in-memory field by an SMT query '
                        '(%d queries over %d paths, all unsat). (2) concrete, per program x scope: imported Python tables == in-memory '
                        'tables (%d entries), header counts, zones.txt, basic is a subset of extended, and every zone emitted in both scopes without a truncation note decodes (library brokers on the compiled generated tables) to the same eras and rules. (3) determinism is NOT decided by a '
                        'solver: two compilations per configuration in interpreters with different hash seeds, %d files diffed '
                        'byte for byte (smoke test).' % (stats['queries'], stats['paths'], rep['entries_compared'], rep['files_compared'])),
        'evaluations': stats['queries'] + rep['entries_compared'], 'distinct_nontrivial': stats['queries'] + rep['entries_compared'],
        'samples': [{'symbolic_render_queries': stats}, {'programs': [n for n, _ in programs]}],
        'programs': len(programs), 'render_queries': stats, 'files_compared_for_determinism': rep['files_compared'],
        'entries_compared': rep['entries_compared'],
        'cross_scope_tables': rep['cross_scope'],
        'emitted_counts': dict((k, len(v)) for k, v in rep['emitted'].items()),
        'not_decided': ['determinism across interpreter hash seeds (smoke-tested only)'],
        'outside_bounds': ['tools/zonedbpy (the checked-in, stale Python database) is covered by C04', 'sources other than the listed programs'],
    }
    kc.finish(cov, ['basic-vs-extended behavioural agreement on shared zones is C02 (shipped tables) and C03 (generated tables)'])


if __name__ == '__main__':
    main()
