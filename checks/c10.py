#!/usr/bin/env python3
"""C10 — zone lookup by name, id and index is exact and always terminates.

The real ZoneRegistrar / ZoneManagerImpl templates on the IR, registry keys, ids, the probe and the comparator's
magnitude all symbolic; registry size n is concrete (driver case split)."""
import sys
import os
sys.path.insert(0, os.path.dirname(os.path.abspath(__file__)))
import common  # noqa: E402

RULE = ('one obligation = path condition AND negated assertion over symbolic registry keys (strictly increasing for sorted '
        'registries, pairwise distinct otherwise), zone ids, probe key/id/index and comparator magnitudes; memory-model '
        'violations (reads outside the n-element registry) and unwinding failures (non-termination) are defects with a model; '
        'distinct = (entry, n, sortedness, path, assertion)')
SIZES_Q = [0, 1, 2, 3, 4, 5, 6, 7, 8, 9, 10, 11, 12, 16, 33]
SIZES_T = list(range(0, 21)) + [24, 28, 32, 33]


def items(a, thorough):
    to = 600 if thorough else 200
    sizes = SIZES_T if thorough else SIZES_Q
    out = []
    for n in sizes:
        for s in (1, 0):
            tag = 'sorted' if s else 'unsorted'
            lim = max(64, n * n + 32)
            if n > 16 and not s and not thorough:
                continue
            if n > 20 and not s:
                continue            # unsorted registries above 20 entries: outside the bound (linear search, cost only)
            out.append(dict(name='by_name/n=%02d/%s' % (n, tag), entry='c10_by_name', args=[n, s, 0, 0], timeout=to,
                            loop_limit=lim, budget_s=900 if thorough else 400, feas_ms=60000))
            if n <= 12 or (thorough and n <= 20):
                out.append(dict(name='by_id_index/n=%02d/%s' % (n, tag), entry='c10_by_id_index', args=[n, s, 0, 0],
                                timeout=to, loop_limit=lim, budget_s=900 if thorough else 400, feas_ms=60000))
            if n <= 8 or (thorough and n <= 12):
                out.append(dict(name='manager/n=%02d/%s' % (n, tag), entry='c10_manager', args=[n, s, 0, 0], timeout=to,
                                loop_limit=lim, budget_s=900 if thorough else 400, feas_ms=60000))
    for i in range(268):
        out.append(dict(name='shipped/zonedb/%03d' % i, entry='c10_shipped_basic', args=[i, 0, 0, 0], loop_limit=400,
                        reach=0))
    for i in range(387):
        out.append(dict(name='shipped/zonedbx/%03d' % i, entry='c10_shipped_extended', args=[i, 0, 0, 0],
                        loop_limit=400, reach=0))
    return out


def bounds(a, thorough):
    return {'registry_size': (SIZES_T if thorough else SIZES_Q), 'keys': 'symbolic 32-bit, sorted (strictly increasing) and '
            'unsorted (pairwise distinct)', 'comparator': 'symbolic result with the correct sign, magnitude 1..127',
            'ids/index/probe': 'symbolic over their whole width',
            'shipped': 'zonedb (268) and zonedbx (387) registries with the real strcmp: every present name/id, concrete',
            'loop_unwinding': 'max(64, n*n+32) block visits per activation (harness registry construction is quadratic) with unwinding assertions (binary search needs <= 17)'}


if __name__ == '__main__':
    common.simple_kernel_main(
        'C10', ['h_c10.cpp'], items, RULE, bounds, with_zonedb=True, with_zonedbx=True,
        outside=['comparator magnitudes above 127 (the int8_t truncation of strcmp results on non-ASCII names)',
                 'registry sizes not listed', 'absent names against the shipped registries with the real strcmp (covered by '
                 'the symbolic-key instantiation)'],
        jobs=16)
