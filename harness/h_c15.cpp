// C15 — printed forms are exact ISO-8601 and parse back to the same value.
#include <AceTime.h>
#include "verif.h"
using namespace ace_time;

class BufPrint : public Print {
  public:
    char buf[80]; uint8_t n = 0;
    size_t write(uint8_t c) override { if (n < 79) buf[n++] = (char) c; return 1; }
    using Print::write;
    void finish() { buf[n] = 0; }
};

static bool isDigit(char c) { return c >= '0' && c <= '9'; }
static int two(const char* p) { return (p[0] - '0') * 10 + (p[1] - '0'); }

static void checkDateTimeText(const char* b, int16_t year, uint8_t m, uint8_t d, uint8_t h, uint8_t mi, uint8_t s) {
  bool shape = isDigit(b[0]) & isDigit(b[1]) & isDigit(b[2]) & isDigit(b[3]) & (b[4] == '-') & isDigit(b[5]) & isDigit(b[6])
      & (b[7] == '-') & isDigit(b[8]) & isDigit(b[9]) & (b[10] == 'T') & isDigit(b[11]) & isDigit(b[12]) & (b[13] == ':')
      & isDigit(b[14]) & isDigit(b[15]) & (b[16] == ':') & isDigit(b[17]) & isDigit(b[18]);
  __verif_assert(shape, "text has the shape dddd-dd-ddTdd:dd:dd");
  int y = (b[0] - '0') * 1000 + (b[1] - '0') * 100 + (b[2] - '0') * 10 + (b[3] - '0');
  __verif_assert((y == year) & (two(b + 5) == m) & (two(b + 8) == d) & (two(b + 11) == h) & (two(b + 14) == mi) & (two(b + 17) == s),
      "digits spell the field values");
}

static void checkOffsetText(const char* b, int16_t o) {
  bool shape = ((b[0] == '+') | (b[0] == '-')) & isDigit(b[1]) & isDigit(b[2]) & (b[3] == ':') & isDigit(b[4]) & isDigit(b[5]);
  __verif_assert(shape, "offset text has the shape [+-]dd:dd");
  __verif_assert((b[0] == '-') == (o < 0), "sign character is '-' exactly for negative offsets (kept for -00:59..-00:01)");
  int mag = o < 0 ? -o : o;
  __verif_assert((two(b + 1) == mag / 60) & (two(b + 4) == mag % 60), "offset digits spell |offset|");
}

static LocalDateTime symbolicValid(int16_t& year) {
  int8_t yt = __verif_nondet_i8("yearTiny");
  uint8_t m = __verif_nondet_u8("month"), d = __verif_nondet_u8("day");
  uint8_t h = __verif_nondet_u8("hour"), mi = __verif_nondet_u8("minute"), s = __verif_nondet_u8("second");
  __verif_assume(yt != -128 && m >= 1 && m <= 12 && d >= 1 && d <= 31 && h < 24 && mi < 60 && s < 60);
  year = yt + 2000;
  return LocalDateTime::forTinyComponents(yt, m, d, h, mi, s);
}

ENTRY(c15_ldt) {
  int16_t year;
  LocalDateTime ldt = symbolicValid(year);
  BufPrint p; ldt.printTo(p); p.finish();
  __verif_assert(p.n == 19, "exactly 19 characters");
  checkDateTimeText(p.buf, year, ldt.month(), ldt.day(), ldt.hour(), ldt.minute(), ldt.second());
  LocalDateTime back = LocalDateTime::forDateString(p.buf);
  __verif_assert((back.yearTiny() == ldt.yearTiny()) & (back.month() == ldt.month()) & (back.day() == ldt.day())
      & (back.hour() == ldt.hour()) & (back.minute() == ldt.minute()) & (back.second() == ldt.second()), "parse(print(x)) == x");
}

ENTRY(c15_offset) {
  int16_t o = __verif_nondet_i16("offset");
  __verif_assume(o >= -5999 && o <= 5999);
  TimeOffset off = TimeOffset::forMinutes(o);
  BufPrint p; off.printTo(p); p.finish();
  __verif_assert(p.n == 6, "exactly 6 characters");
  checkOffsetText(p.buf, o);
  TimeOffset back = TimeOffset::forOffsetString(p.buf);
  __verif_assert(back.toMinutes() == o, "parse(print(offset)) == offset");
}

ENTRY(c15_odt) {
  int16_t year;
  LocalDateTime ldt = symbolicValid(year);
  int16_t o = __verif_nondet_i16("offset");
  __verif_assume(o >= -5999 && o <= 5999);
  OffsetDateTime odt = OffsetDateTime::forLocalDateTimeAndOffset(ldt, TimeOffset::forMinutes(o));
  BufPrint p; odt.printTo(p); p.finish();
  __verif_assert(p.n == 25, "exactly 25 characters");
  checkDateTimeText(p.buf, year, ldt.month(), ldt.day(), ldt.hour(), ldt.minute(), ldt.second());
  checkOffsetText(p.buf + 19, o);
  OffsetDateTime back = OffsetDateTime::forDateString(p.buf);
  __verif_assert((back.yearTiny() == ldt.yearTiny()) & (back.month() == ldt.month()) & (back.day() == ldt.day())
      & (back.hour() == ldt.hour()) & (back.minute() == ldt.minute()) & (back.second() == ldt.second())
      & (back.timeOffset().toMinutes() == o), "parse(print(x)) == x (fields and offset)");
}

// zoned date-time in a manual zone: text = offset form + '[' + zone text + ']', parses back to the same instant and offset
ENTRY(c15_zdt_manual) {
  // date-time fields concrete here (their printing is c15_ldt / c15_odt); the zone offsets are symbolic:
  // standard offset symbolic, DST shift a0 minutes (driver case split)
  int16_t year = 2021;
  LocalDateTime ldt = LocalDateTime::forComponents(2021, 3, 14, 1, 59, 26);
  int16_t sd = __verif_nondet_i16("std");
  int16_t ds = (int16_t) a0;
  __verif_assume(sd >= -840 && sd <= 840);
  TimeZone tz = TimeZone::forTimeOffset(TimeOffset::forMinutes(sd), TimeOffset::forMinutes(ds));
  ZonedDateTime z = ZonedDateTime::forComponents(year, ldt.month(), ldt.day(), ldt.hour(), ldt.minute(), ldt.second(), tz);
  BufPrint p; z.printTo(p); p.finish();
  checkDateTimeText(p.buf, year, ldt.month(), ldt.day(), ldt.hour(), ldt.minute(), ldt.second());
  checkOffsetText(p.buf + 19, sd + ds);
  __verif_assert(p.buf[25] == '[' && p.buf[p.n - 1] == ']', "zone text is bracketed");
  ZonedDateTime back = ZonedDateTime::forDateString(p.buf);
  __verif_assert((back.yearTiny() == ldt.yearTiny()) & (back.month() == ldt.month()) & (back.day() == ldt.day())
      & (back.hour() == ldt.hour()) & (back.minute() == ldt.minute()) & (back.second() == ldt.second())
      & (back.timeOffset().toMinutes() == sd + ds), "parse(print(zoned)) has the same fields and offset");
  __verif_assert(back.toEpochSeconds() == z.toEpochSeconds(), "parse(print(zoned)) is the same instant");
}

// zoned date-time in database zone a0 (extended) at the concrete instant a1: bracketed zone name from the table
ENTRY(c15_zdt_zone) {
  ExtendedZoneProcessor proc;
  const extended::ZoneInfo* zi = zonedbx::kZoneRegistry[a0];
  TimeZone tz = TimeZone::forZoneInfo(zi, &proc);
  ZonedDateTime z = ZonedDateTime::forEpochSeconds((acetime_t) a1, tz);
  // another zone (a2) bound to the same processor is used in between (documented as allowed): the printed name is still a0's
  TimeZone other = TimeZone::forZoneInfo(zonedbx::kZoneRegistry[a2], &proc);
  __verif_observe("other_off", other.getUtcOffset((acetime_t) a1).toMinutes());
  BufPrint p; z.printTo(p); p.finish();
  BufPrint q; z.localDateTime().printTo(q); z.timeOffset().printTo(q); q.finish();
  __verif_assert(strncmp(p.buf, q.buf, 25) == 0, "starts with the offset date-time text");
  const char* name = extended::ZoneInfoBroker(zi).name();
  __verif_assert(p.buf[25] == '[' && strncmp(p.buf + 26, name, strlen(name)) == 0 && p.buf[26 + strlen(name)] == ']'
      && p.n == 27 + strlen(name), "followed by the bracketed zone name");
  ZonedDateTime back = ZonedDateTime::forDateString(p.buf);
  __verif_assert(back.toEpochSeconds() == (acetime_t) a1 && back.timeOffset().toMinutes() == z.timeOffset().toMinutes(),
      "parses back to the same instant and offset");
}

ENTRY(c15_errors) {
  BufPrint a; LocalDateTime::forError().printTo(a); a.finish();
  __verif_assert(strcmp(a.buf, "<Invalid LocalDateTime>") == 0, "LocalDateTime placeholder");
  BufPrint b; OffsetDateTime::forError().printTo(b); b.finish();
  __verif_assert(strcmp(b.buf, "<Invalid OffsetDateTime>") == 0, "OffsetDateTime placeholder");
  BufPrint c; ZonedDateTime::forError().printTo(c); c.finish();
  __verif_assert(strcmp(c.buf, "<Invalid ZonedDateTime>") == 0, "ZonedDateTime placeholder");
  BufPrint d; LocalDate::forError().printTo(d); d.finish();
  __verif_assert(strcmp(d.buf, "<Invalid LocalDate>") == 0, "LocalDate placeholder");
  BufPrint e; LocalTime::forError().printTo(e); e.finish();
  __verif_assert(strcmp(e.buf, "<Invalid LocalTime>") == 0, "LocalTime placeholder");
  BufPrint f; TimeZone::forError().printTo(f); f.finish();
  __verif_assert(strcmp(f.buf, "<Error>") == 0, "TimeZone placeholder");
}

// strings of a0 arbitrary non-NUL bytes (a0 below the required minimum) parse to error values
ENTRY(c15_short) {
  char s[32];
  for (long i = 0; i < a0; i++) { s[i] = (char) __verif_nondet_u8("byte"); __verif_assume(s[i] != 0); }
  s[a0] = 0;
  if (a0 < 19) __verif_assert(LocalDateTime::forDateString(s).isError(), "short LocalDateTime string -> error");
  if (a0 < 25) __verif_assert(OffsetDateTime::forDateString(s).isError(), "short OffsetDateTime string -> error");
  if (a0 < 25) __verif_assert(ZonedDateTime::forDateString(s).isError(), "short ZonedDateTime string -> error");
  if (a0 != 6) __verif_assert(TimeOffset::forOffsetString(s).isError(), "wrong-length offset string -> error");
  if (a0 < 10) __verif_assert(LocalDate::forDateString(s).isError(), "short LocalDate string -> error");
  if (a0 < 8) __verif_assert(LocalTime::forTimeString(s).isError(), "short LocalTime string -> error");
}
