#!/bin/sh
# usage: try_mutant.sh <patch.diff> <command...>   — applies the patch to /repo, runs the command, always reverts.
P="$1"; shift
cd /repo || exit 9
if ! git -C /repo diff --quiet; then echo "/repo has uncommitted changes"; exit 9; fi
git -C /repo apply "$P" || { echo "patch does not apply"; exit 9; }
( cd /verif && "$@" ); RC=$?
git -C /repo checkout -- . 
echo "[try_mutant] exit=$RC"
exit $RC
