#!/usr/bin/env python3
"""C01 — extended zones: offset, DST flag and abbreviation equal the TZ rules at every instant of 2000..2049.\n\nSymbolic over the epoch second t; zone and UTC year are driver case splits; oracle = zic+zdump on the recorded lines."""
import sys
import os
sys.path.insert(0, os.path.dirname(os.path.abspath(__file__)))
import zones  # noqa: E402

if __name__ == '__main__':
    zones.zone_main('C01', 'ext')
