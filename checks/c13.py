#!/usr/bin/env python3
"""C13 — SystemClock keeps exact time from millis() (inductive step + k-step BMC on the real IR)."""
import sys
import os
sys.path.insert(0, os.path.dirname(os.path.abspath(__file__)))
import common  # noqa: E402

RULE = ('one obligation = path condition AND negated assertion over symbolic T, 64-bit counter values, 16-bit phase '
        'and poll gaps; the getNow() catch-up loop is unwound (one path per iteration count); distinct = '
        '(entry, gap chunk, path, assertion)')


def items(a, thorough):
    to = 600 if thorough else 200
    out = [dict(name='before_set', entry='c13_before_set', args=[0, 0, 0, 0], timeout=to),
           dict(name='set_sentinel_ignored', entry='c13_set_sentinel_ignored', args=[0, 0, 0, 0], timeout=to)]
    # gap chunks: each covers <= 9 iterations of the catch-up loop
    step = 8000
    for lo in range(0, 64537, step):
        hi = min(64536, lo + step - 1)
        out.append(dict(name='set_then_read/g=%d-%d' % (lo, hi), entry='c13_set_then_read', args=[lo, hi, 0, 0],
                        timeout=to, loop_limit=70, budget_s=120))
        out.append(dict(name='step/g=%d-%d' % (lo, hi), entry='c13_step', args=[lo, hi, 0, 0], timeout=to,
                        loop_limit=70))
        out.append(dict(name='reset_then_read/g=%d-%d' % (lo, hi), entry='c13_reset_then_read', args=[lo, hi, 0, 0],
                        timeout=to, loop_limit=70, budget_s=120))
    if thorough:
        out.append(dict(name='bmc/k=4/gap<1200', entry='c13_bmc', args=[1200, 4, 0, 0], timeout=to, loop_limit=70, budget_s=900))
        out.append(dict(name='bmc/k=3/gap<4000', entry='c13_bmc', args=[4000, 3, 0, 0], timeout=to, loop_limit=70, budget_s=900))
    out.append(dict(name='bmc/k=3/gap<2500', entry='c13_bmc', args=[2500, 3, 0, 0], timeout=to, loop_limit=70, budget_s=300))
    out.append(dict(name='bmc/k=2/gap<9000', entry='c13_bmc', args=[9000, 2, 0, 0], timeout=to, loop_limit=70, budget_s=120))
    for it in out:
        it['quick_ms'] = 20000
    return out


def bounds(a, thorough):
    return {'T': 'all int32 except the sentinel (and leaving head-room for +70 s)', 'counter': 'all 64-bit values '
            '(so 2^16 and 2^32 wrap-around are ordinary values)', 'phase': 'all 16-bit mPrevMillis',
            'gap': '0..64536 ms for the single step (9 chunks); BMC: <2500 ms x 3 polls and <9000 ms x 2 polls (thorough adds <1200 ms x 4 and <4000 ms x 3)',
            'loop_unwinding': '70 (catch-up loop needs at most 66)'}


if __name__ == '__main__':
    common.simple_kernel_main(
        'C13', ['h_c13.cpp'], items, RULE, bounds,
        outside=['gaps above 64536 ms', '32-bit unsigned long targets', 'SystemClockCoroutine'],
        extra_assumptions=['clockMillis() is a harness stub returning an arbitrary 64-bit value',
                           'the inductive invariant: isInit and (uint16)(millis - mPrevMillis) < 1000'],
        jobs=16)
