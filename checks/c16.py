#!/usr/bin/env python3
"""C16 — TimeZone is a faithful value: equality, manual offsets, save/restore through a zone manager."""
import sys
import os
import random
sys.path.insert(0, os.path.dirname(os.path.abspath(__file__)))
import common  # noqa: E402

RULE = ('one obligation = path condition AND negated assertion; manual offsets (all int16 pairs), probe instants, zone ids '
        '(including ids assumed absent from the registry) are solver variables; registry indices are a concrete case split '
        'over every entry of both shipped registries; distinct = (entry, index, path, assertion)')


def items(a, thorough):
    to = 300
    rnd = random.Random(a.seed)
    out = [dict(name='manual', entry='c16_manual', args=[0, 0, 0, 0], timeout=to, loop_limit=500),
           dict(name='error_and_ids', entry='c16_error_and_ids', args=[0, 0, 0, 0], timeout=to, loop_limit=500),
           dict(name='absent_id/basic', entry='c16_absent_id_basic', args=[0, 0, 0, 0], timeout=to, loop_limit=500),
           dict(name='absent_id/extended', entry='c16_absent_id_extended', args=[0, 0, 0, 0], timeout=to, loop_limit=500)]
    for k in range(12 if thorough else 3):
        out.append(dict(name='history/basic/%d' % k, entry='c16_history_basic', args=[rnd.randrange(268), rnd.randrange(268), 0, 0],
                        timeout=to, loop_limit=900))
        out.append(dict(name='history/extended/%d' % k, entry='c16_history_extended', args=[rnd.randrange(387), rnd.randrange(387), 0, 0],
                        timeout=to, loop_limit=900))
    for i in range(268):
        out.append(dict(name='managed/basic/%03d' % i, entry='c16_managed_basic',
                        args=[i, rnd.choice([i, rnd.randrange(268)]), rnd.randrange(0, 1577923200), 0], loop_limit=500, reach=0))
    for i in range(387):
        out.append(dict(name='managed/extended/%03d' % i, entry='c16_managed_extended',
                        args=[i, rnd.choice([i, rnd.randrange(387)]), rnd.randrange(0, 1577923200), 0], loop_limit=500, reach=0))
    return out


def bounds(a, thorough):
    return {'manual': 'std, dst and a second pair: all int16; instant: all int32', 'zone_ids': 'all uint32 (symbolic), absent ids '
            'assumed different from all 268 / 387 registry ids', 'registry_index': 'every entry of zonedb (268) and zonedbx (387), '
            'second zone and probe instant drawn with VERIF_SEED', 'restore_histories': 'one fixed 11-call pattern (hit, absent, same absent, hit, '
            'second absent, ...) on one manager, ids symbolic, %d seed-drawn zone pairs per registry' % (12 if thorough else 3), 'loop_unwinding': 500}


if __name__ == '__main__':
    common.simple_kernel_main('C16', ['h_c16.cpp'], items, RULE, bounds, with_zonedb=True, with_zonedbx=True,
                              outside=['TimeZoneData with a type byte above 3 (restores to UTC; not part of the statement)',
                                       'manual offsets whose sum leaves int16'], jobs=16)
