// C18 — rule day resolution: BasicZoneProcessor::calcStartDayOfMonth (also used by the extended processor).
#include <AceTime.h>
#include "verif.h"
using namespace ace_time;

class BasicZoneProcessorTest_calcStartDayOfMonth {
  public:
    static basic::MonthDay call(int16_t year, uint8_t month, uint8_t dow, int8_t dom) {
      return BasicZoneProcessor::calcStartDayOfMonth(year, month, dow, dom);
    }
};

// a0 = month (1..12), a1 = kind: 0 exact day (dow==0), 1 lastXxx (dom==0), 2 Xxx>=dom, 3 Xxx<=|dom|
// a2 = 1: restrict to the tuples the transformer's filter admits (given by the driver as a3 bit mask is not needed:
//         the admission predicate is applied on the Python side through assumptions on dom)
ENTRY(c18_start_day) {
  int16_t year = __verif_nondet_i16("year");
  uint8_t dow = __verif_nondet_u8("dow");
  int8_t dom = __verif_nondet_i8("dom");
  uint8_t month = (uint8_t) a0;
  __verif_assume(year >= 1873 && year <= 2126);
  if (a1 == 0) {
    __verif_assume(dow == 0 && dom >= 1 && dom <= 31);
  } else if (a1 == 1) {
    __verif_assume(dow >= 1 && dow <= 7 && dom == 0);
  } else if (a1 == 2) {
    __verif_assume(dow >= 1 && dow <= 7 && dom >= 1 && dom <= 31);
    __verif_assume(dom >= (int8_t) a2 && dom <= (int8_t) a3);
  } else {
    __verif_assume(dow >= 1 && dow <= 7 && dom <= -1 && dom >= -31);
    __verif_assume(-dom >= (int8_t) a2 && -dom <= (int8_t) a3);
  }
  basic::MonthDay md = BasicZoneProcessorTest_calcStartDayOfMonth::call(year, month, dow, dom);
  __verif_observe("month", md.month);
  __verif_observe("day", md.day);
}
