"""Proleptic Gregorian calendar specification: constant tables + z3 renderings.

The tables are built from the Gregorian leap rule by plain accumulation and are
checked against CPython's datetime.date for every day of 1872..2128 by
validate() on every run (a finite validation of the *spec*, not of AceTime)."""
import datetime
import z3

Y_MIN, Y_MAX = 1872, 2128
MONTH_LEN = [31, 28, 31, 30, 31, 30, 31, 31, 30, 31, 30, 31]


def is_leap(y):
    return (y % 4 == 0 and y % 100 != 0) or y % 400 == 0


def dim(y, m):
    return 29 if (m == 2 and is_leap(y)) else MONTH_LEN[m - 1]


# YEAR0[y] = days from 2000-01-01 to y-01-01
YEAR0 = {2000: 0}
for _y in range(2000, Y_MAX + 1):
    YEAR0[_y + 1] = YEAR0[_y] + (366 if is_leap(_y) else 365)
for _y in range(1999, Y_MIN - 1, -1):
    YEAR0[_y] = YEAR0[_y + 1] - (366 if is_leap(_y) else 365)
# CUM[leap][m] = days from Jan 1 to the first of month m (1-based)
CUM = {False: [None, 0], True: [None, 0]}
for _l in (False, True):
    for _m in range(1, 12):
        CUM[_l].append(CUM[_l][-1] + (29 if (_m == 2 and _l) else MONTH_LEN[_m - 1]))


def days(y, m, d):
    return YEAR0[y] + CUM[is_leap(y)][m] + d - 1


def weekday(days_):
    """ISO weekday 1=Monday..7=Sunday; 2000-01-01 was a Saturday."""
    return (days_ + 5) % 7 + 1


def civil(n):
    y = 2000
    while n < YEAR0[y]:
        y -= 1
    while n >= YEAR0[y + 1]:
        y += 1
    r = n - YEAR0[y]
    l = is_leap(y)
    m = 12
    while CUM[l][m] > r:
        m -= 1
    return y, m, r - CUM[l][m] + 1


def epoch_seconds(y):
    """AceTime epoch seconds of y-01-01T00:00:00Z."""
    return YEAR0[y] * 86400


def validate():
    base = datetime.date(2000, 1, 1).toordinal()
    n = 0
    for y in range(Y_MIN, Y_MAX + 1):
        for m in range(1, 13):
            for d in range(1, dim(y, m) + 1):
                dt = datetime.date(y, m, d)
                dd = dt.toordinal() - base
                assert days(y, m, d) == dd, (y, m, d)
                assert weekday(dd) == dt.isoweekday(), (y, m, d)
                n += 1
    for dd in range(days(Y_MIN, 1, 1), days(Y_MAX, 12, 31) + 1, 97):
        dt = datetime.date.fromordinal(dd + base)
        assert civil(dd) == (dt.year, dt.month, dt.day)
    return n


# ---- z3 renderings (bit-vectors) -------------------------------------------

def _table(idx, entries, default, bits):
    """ite chain: entries = list of (key int, value int); idx a BV."""
    e = z3.BitVecVal(default, bits)
    for k, v in entries:
        e = z3.If(idx == k, z3.BitVecVal(v, bits), e)
    return e


def z3_leap_tiny(yt):
    """yt: BV8 signed year-2000."""
    return z3.Or([yt == (y - 2000) for y in range(1873, 2128) if is_leap(y)])


def z3_days(yt, m, d, bits=32):
    """spec days since 2000-01-01 for BV8 yearTiny/month/day (valid inputs)."""
    y0 = _table(yt, [((y - 2000) & 0xff, YEAR0[y] & 0xffffffff) for y in range(1873, 2128)], 0, bits)
    leap = z3_leap_tiny(yt)
    cl = _table(m, [(k, CUM[True][k]) for k in range(1, 13)], 0, bits)
    cn = _table(m, [(k, CUM[False][k]) for k in range(1, 13)], 0, bits)
    return y0 + z3.If(leap, cl, cn) + z3.ZeroExt(bits - 8, d) - 1


def z3_dim(yt, m):
    leap = z3_leap_tiny(yt)
    base = _table(m, [(k, MONTH_LEN[k - 1]) for k in range(1, 13)], 0, 8)
    return z3.If(z3.And(m == 2, leap), z3.BitVecVal(29, 8), base)


def z3_valid_date(yt, m, d):
    return z3.And(yt != 0x80, z3.UGE(m, 1), z3.ULE(m, 12), z3.UGE(d, 1), z3.ULE(d, z3_dim(yt, m)))


def z3_weekday(days32):
    """ISO weekday from a BV32 signed day count (domain |days| < 2^20)."""
    return z3.URem(days32 + 5 + 7 * 100000, 7) + 1


# ---- z3 renderings over mathematical integers (for the Python side, pysym) ------------------------------------

def zi_table(idx, entries, default):
    e = z3.IntVal(default)
    for k, v in entries:
        e = z3.If(idx == k, z3.IntVal(v), e)
    return e


def zi_leap(y):
    return z3.Or([y == yy for yy in range(1873, 2128) if is_leap(yy)])


def zi_dim(y, m):
    """m: python int or z3 Int"""
    base = zi_table(m, [(k, MONTH_LEN[k - 1]) for k in range(1, 13)], 0) if not isinstance(m, int) else z3.IntVal(MONTH_LEN[m - 1])
    return z3.If(z3.And(m == 2, zi_leap(y)), z3.IntVal(29), base)


def zi_days(y, m, d):
    y0 = zi_table(y, [(yy, YEAR0[yy]) for yy in range(1873, 2128)], 0)
    if isinstance(m, int):
        cum = z3.If(zi_leap(y), z3.IntVal(CUM[True][m]), z3.IntVal(CUM[False][m]))
    else:
        cum = z3.If(zi_leap(y), zi_table(m, [(k, CUM[True][k]) for k in range(1, 13)], 0),
                    zi_table(m, [(k, CUM[False][k]) for k in range(1, 13)], 0))
    return y0 + cum + d - 1


def zi_weekday(days_):
    return (days_ + 5) % 7 + 1
