#include "Arduino.h"
