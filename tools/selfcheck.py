#!/usr/bin/env python3
"""setup_cmd: verify that the tools the checks need are present (nothing is installed)."""
import shutil
import sys
missing = [t for t in ('clang++-14', 'llvm-link-14', 'z3', 'z3-new', 'cvc5', 'zic', 'zdump') if not shutil.which(t)]
try:
    import z3  # noqa
    import ctypes
    ctypes.CDLL('/usr/lib/llvm-14/lib/libLLVM-14.so')
except Exception as e:  # noqa
    missing.append(str(e))
if missing:
    print('missing: %s' % missing)
    sys.exit(1)
print('selfcheck ok')
