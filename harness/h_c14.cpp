// C14 — SystemClockLoop sync state machine: one-step checks from an arbitrary state + k-step BMC.
#include <AceTime.h>
#include "verif.h"
using namespace ace_time;
using namespace ace_time::clock;

static unsigned long gMillis;
extern "C" unsigned long millis() { return gMillis; }

struct Env { bool ready; acetime_t response; int sendCount; int refSetCount; acetime_t refSetValue; };
static Env gEnv;

class RefClock : public Clock {
  public:
    acetime_t getNow() const override { return gEnv.response; }
    void sendRequest() const override { gEnv.sendCount++; }
    bool isResponseReady() const override { return gEnv.ready; }
    acetime_t readResponse() const override { return gEnv.response; }
    void setNow(acetime_t t) override { gEnv.refSetCount++; gEnv.refSetValue = t; }
};
class BackupClock : public Clock {
  public:
    int setCount = 0; acetime_t setValue = 0;
    acetime_t getNow() const override { return setValue; }
    void setNow(acetime_t t) override { setCount++; setValue = t; }
};

class HLoop : public SystemClockLoop {
  public:
    HLoop(Clock* ref, Clock* backup, uint16_t sync, uint16_t initial, uint16_t timeout)
        : SystemClockLoop(ref, backup, sync, initial, timeout) {}
    unsigned long clockMillis() const override { return gMillis; }
};

class SystemClockLoopTest {          // friend of SystemClock
  public:
    static void setClock(SystemClock& c, acetime_t e, uint16_t p, bool init, acetime_t lastSync) {
      c.mEpochSeconds = e; c.mPrevMillis = p; c.mIsInit = init; c.mLastSyncTime = lastSync;
    }
    static acetime_t epoch(const SystemClock& c) { return c.mEpochSeconds; }
    static acetime_t lastSync(const SystemClock& c) { return c.mLastSyncTime; }
    static bool isInit(const SystemClock& c) { return c.mIsInit; }
};
class SystemClockLoopTest_loop {     // friend of SystemClockLoop
  public:
    static void set(SystemClockLoop& c, uint8_t status, uint16_t cur, unsigned long start, unsigned long lastSyncMillis) {
      c.mRequestStatus = status; c.mCurrentSyncPeriodSeconds = cur; c.mRequestStartMillis = start; c.mLastSyncMillis = lastSyncMillis;
    }
    static uint8_t status(const SystemClockLoop& c) { return c.mRequestStatus; }
    static uint16_t cur(const SystemClockLoop& c) { return c.mCurrentSyncPeriodSeconds; }
    static unsigned long start(const SystemClockLoop& c) { return c.mRequestStartMillis; }
    static unsigned long lastSyncMillis(const SystemClockLoop& c) { return c.mLastSyncMillis; }
};
typedef SystemClockLoopTest_loop L;
typedef SystemClockLoopTest S;

// a0 = status of the pre-state (0..3), a1 = backup configuration: 0 distinct backup, 1 backup == reference, 2 no backup
ENTRY(c14_step) {
  RefClock ref; BackupClock backup;
  uint16_t sync = __verif_nondet_u16("sync"), initial = __verif_nondet_u16("initial"), timeout = __verif_nondet_u16("timeout");
  uint16_t cur = __verif_nondet_u16("cur");
  __verif_assume(sync >= 1 && initial >= 1 && initial <= sync && cur >= 1 && cur <= sync);
  Clock* b = (a1 == 0) ? (Clock*) &backup : ((a1 == 1) ? (Clock*) &ref : nullptr);
  HLoop c(&ref, b, sync, initial, timeout);
  int32_t e = __verif_nondet_i32("epoch"), lastSync = __verif_nondet_i32("lastSync");
  uint16_t p = __verif_nondet_u16("prevMillis");
  uint64_t m = __verif_nondet_u64("millis"), start = __verif_nondet_u64("start"), lsm = __verif_nondet_u64("lastSyncMillis");
  bool init = __verif_nondet_u8("init") & 1;
  __verif_assume(e != Clock::kInvalidSeconds && e < 2147483000);
  __verif_assume((uint16_t) ((uint16_t) m - p) < 1000);       // clock invariant (C13): no catch-up needed in this step
  __verif_assume(start <= m && lsm <= m);
  S::setClock(c, init ? e : Clock::kInvalidSeconds, p, init, lastSync);
  L::set(c, (uint8_t) a0, cur, start, lsm);
  gEnv.ready = __verif_nondet_u8("ready") & 1;
  gEnv.response = __verif_nondet_i32("response");
  gEnv.sendCount = 0; gEnv.refSetCount = 0;
  gMillis = m;
  acetime_t before = S::epoch(c);
  c.loop();
  uint8_t st = L::status(c);
  __verif_assert(gEnv.refSetCount == 0, "loop() never writes to the reference clock");
  if (a0 == SystemClockLoop::kStatusReady) {
    __verif_assert(gEnv.sendCount == 1 && st == SystemClockLoop::kStatusSent && L::start(c) == m, "Ready: request sent, start recorded");
    __verif_assert(S::epoch(c) == before && S::lastSync(c) == lastSync && backup.setCount == 0, "Ready: time untouched");
  } else {
    __verif_assert(gEnv.sendCount == 0, "no request outside the Ready state");
  }
  if (a0 == SystemClockLoop::kStatusSent) {
    if (gEnv.ready && gEnv.response != Clock::kInvalidSeconds) {
      __verif_assert(S::isInit(c) && S::epoch(c) == gEnv.response && c.getNow() == gEnv.response, "valid response applied immediately");
      __verif_assert(S::lastSync(c) == gEnv.response, "last-sync time updated");
      __verif_assert(st == SystemClockLoop::kStatusOk && L::cur(c) == sync && L::lastSyncMillis(c) == m, "Ok, period := syncPeriod");
      if (a1 == 0) {
        __verif_assert((backup.setCount == 1 && backup.setValue == gEnv.response) == (before != gEnv.response), "distinct backup written iff the clock changed");
        __verif_assert(backup.setCount <= 1, "backup written at most once");
      }
    } else {
      __verif_assert(S::epoch(c) == before && S::lastSync(c) == lastSync && S::isInit(c) == init, "invalid/absent response never changes the clock or last-sync");
      __verif_assert(backup.setCount == 0, "backup untouched");
      if (gEnv.ready) {
        __verif_assert(st == SystemClockLoop::kStatusWaitForRetry, "invalid response -> WaitForRetry");
      } else {
        __verif_assert(st == ((m - start >= timeout) ? SystemClockLoop::kStatusWaitForRetry : SystemClockLoop::kStatusSent), "timeout -> WaitForRetry, else keep waiting");
      }
      __verif_assert(L::cur(c) == cur, "period unchanged while waiting");
    }
  }
  if (a0 == SystemClockLoop::kStatusOk) {
    bool due = (m - lsm) >= (uint64_t) cur * 1000;
    __verif_assert(st == (due ? SystemClockLoop::kStatusReady : SystemClockLoop::kStatusOk), "Ok -> Ready exactly when the period has elapsed");
    __verif_assert(S::epoch(c) == before && S::lastSync(c) == lastSync && backup.setCount == 0 && L::cur(c) == cur, "Ok: nothing else changes");
  }
  if (a0 == SystemClockLoop::kStatusWaitForRetry) {
    bool due = (m - start) >= (uint64_t) cur * 1000;
    __verif_assert(st == (due ? SystemClockLoop::kStatusReady : SystemClockLoop::kStatusWaitForRetry), "WaitForRetry -> Ready exactly when the retry period has elapsed");
    uint16_t want = due ? ((cur >= sync / 2) ? sync : (uint16_t) (cur * 2)) : cur;
    __verif_assert(L::cur(c) == want, "back-off: period doubles per failure up to the sync period");
    __verif_assert(L::cur(c) <= sync && L::cur(c) >= cur, "period stays within [cur, sync]");
    __verif_assert(S::epoch(c) == before && S::lastSync(c) == lastSync && backup.setCount == 0, "WaitForRetry: time untouched");
  }
}

// no reference clock: loop() only keeps time
ENTRY(c14_no_reference) {
  BackupClock backup;
  uint16_t cur = __verif_nondet_u16("cur");
  HLoop c(nullptr, &backup, 3600, 5, 1000);
  int32_t e = __verif_nondet_i32("epoch");
  uint16_t p = __verif_nondet_u16("prevMillis");
  uint64_t m = __verif_nondet_u64("millis");
  uint8_t status = __verif_nondet_u8("status");
  __verif_assume(status <= 3 && e != Clock::kInvalidSeconds && e < 2147483000 && (uint16_t) ((uint16_t) m - p) < 3000);
  S::setClock(c, e, p, true, e);
  L::set(c, status, cur, 0, 0);
  gEnv.sendCount = 0;
  gMillis = m;
  c.loop();
  __verif_assert(L::status(c) == status && L::cur(c) == cur && backup.setCount == 0 && gEnv.sendCount == 0, "no reference: state and clocks untouched");
  __verif_assert(S::epoch(c) == e + (int32_t) ((uint16_t) ((uint16_t) m - p) / 1000), "no reference: keeps time");
}

// k-step BMC from the constructed initial state: a0 = steps, a1 = scenario (0: reference never answers, 1: nondeterministic)
ENTRY(c14_bmc) {
  RefClock ref; BackupClock backup;
  HLoop c(&ref, &backup, 4, 1, 1000);       // sync 4 s, initial 1 s, timeout 1000 ms
  uint64_t m = __verif_nondet_u64("m0");
  gEnv.sendCount = 0; gEnv.refSetCount = 0;
  uint64_t lastSend = 0; bool sentOnce = false; int sends = 0;
  uint64_t t0 = m;
  for (long i = 0; i < a0; i++) {
    uint32_t g = __verif_nondet_u32("gap");
    __verif_assume(g >= 600 && g < 1000);
    m += g;
    gMillis = m;
    gEnv.ready = (a1 == 0) ? false : (__verif_nondet_u8("ready") & 1);
    gEnv.response = (a1 == 0) ? 0 : (int32_t) __verif_nondet_u8("resp") - 1 < 0 ? Clock::kInvalidSeconds : 1000;
    uint16_t curBefore = L::cur(c);
    uint8_t stBefore = L::status(c);
    int before = gEnv.sendCount;
    c.loop();
    if (gEnv.sendCount > before) {
      if (sentOnce) {
        __verif_assert(m - lastSend >= 1000, "consecutive requests at least the initial period apart");
      }
      lastSend = m; sentOnce = true; sends++;
    }
    if ((stBefore == SystemClockLoop::kStatusWaitForRetry) && L::status(c) == SystemClockLoop::kStatusReady) {
      __verif_assert(m - L::start(c) >= (uint64_t) curBefore * 1000, "retry only after the period in force");
    }
    __verif_assert(L::cur(c) <= 4 && L::cur(c) >= 1, "period within [initial, sync]");
  }
  if (a1 == 0 && a0 >= 6) {
    // reference never answers: request at step 1, timeout after >= 1000 ms, retry period 1 s, so a second request within 6 steps
    __verif_assert(sends >= 2, "bounded liveness: another request is issued");
    __verif_assert(!c.isInit(), "clock stays unset without a valid response");
  }
  __verif_observe("sends", sends);
}
