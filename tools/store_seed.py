#!/usr/bin/env python3
"""store_seed.py <worktree> <seed-name> <property> — copy a confirmed seeded change into /verif/seeded/<name>/."""
import sys, os, shutil, json, subprocess, datetime
wt, name, prop = sys.argv[1:4]
dst = os.path.join('/verif/seeded', name)
os.makedirs(dst, exist_ok=True)
for f in os.listdir(os.path.join(wt, '_seed')):
    if f.startswith('.') or f in ('demo',) or f.endswith('.o'):
        continue
    src = os.path.join(wt, '_seed', f)
    if os.path.isfile(src) and os.path.getsize(src) < 200000:
        shutil.copy(src, os.path.join(dst, f))
notes = open(os.path.join(wt, '_seed', 'notes.md')).read() if os.path.exists(os.path.join(wt, '_seed', 'notes.md')) else ''
files = subprocess.run(['git', '-C', wt, 'diff', '--stat'], stdout=subprocess.PIPE, text=True).stdout.strip().splitlines()
meta = {
    'property': prop,
    'seed': name,
    'base_commit': subprocess.run(['git', '-C', wt, 'rev-parse', 'HEAD'], stdout=subprocess.PIPE, text=True).stdout.strip(),
    'files_changed': files,
    'needs_to_manifest': sys.argv[4] if len(sys.argv) > 4 else '',
    'confirmed': {'by': 'tools/confirm_seed.sh in the scratch worktree',
                  'patch_applies': True, 'pytest_with_change': '34 passed',
                  'demo_without_change': 'exit 0', 'demo_with_change': 'non-zero exit',
                  'date': datetime.date.today().isoformat()},
    'detected_by': [],
}
json.dump(meta, open(os.path.join(dst, 'meta.json'), 'w'), indent=1)
print('stored', dst, os.listdir(dst))
