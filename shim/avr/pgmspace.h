// /verif shim: flat-memory pgmspace (as on UnixHostDuino / EpoxyDuino).
#ifndef VERIF_SHIM_PGMSPACE_H
#define VERIF_SHIM_PGMSPACE_H
#include <stdint.h>
#include <string.h>
#define PROGMEM
#define PGM_P const char*
#define PSTR(s) (s)
#define pgm_read_byte(p) (*(const uint8_t*)(p))
#define pgm_read_word(p) (*(const uint16_t*)(p))
#define pgm_read_dword(p) (*(const uint32_t*)(p))
#define pgm_read_ptr(p) (*(const void* const*)(p))
#define strcmp_P strcmp
#define strncmp_P strncmp
#define strlen_P strlen
#define strcpy_P strcpy
#define strncpy_P strncpy
#define memcpy_P memcpy
#define strchr_P strchr
#define strrchr_P strrchr
#endif
