"""TZ-semantics oracle: the IANA compiler itself (zic 2.36 + zdump).

The Zone/Rule lines are the raw lines that the AceTime generator records as
comments beside every ZoneEra / ZoneRule entry of zone_infos.cpp /
zone_policies.cpp ("the same Zone/Rule lines").  Synthetic "Anchor:" rules are
not part of the source.  zic compiles them; zdump -v lists every discontinuity;
the result is a step function  t -> (utoff seconds, isdst, abbreviation)
over AceTime epoch seconds (2000-01-01T00:00:00Z = 0)."""
import os
import re
import struct
import subprocess
import datetime
import bisect

UNIX_OFFSET = 946684800
_EPOCH = datetime.datetime(2000, 1, 1)


def parse_policies(path):
    """{policy name: [raw rule line, ...]} from zone_policies.cpp comments."""
    out = {}
    cur = None
    for ln in open(path, encoding='utf-8'):
        s = ln.strip()
        m = re.match(r'^// Policy name: (\S+)', s)
        if m:
            cur = m.group(1)
            out[cur] = []
            continue
        m = re.match(r'^// (Rule\s+\S+\s+.*)$', s)
        if m and cur is not None:
            out[cur].append(m.group(1))
    return out


def parse_zones(path):
    """([(zone name, [raw era line, ...])], {link name: target}) from zone_infos.cpp comments."""
    zones = []
    links = {}
    cur = None
    expect_era = False
    for ln in open(path, encoding='utf-8'):
        s = ln.rstrip('\n')
        m = re.match(r'^// Zone name: (\S+)', s)
        if m:
            cur = (m.group(1), [])
            zones.append(cur)
            continue
        m = re.match(r'^// Link name: (\S+) -> (\S+)', s)
        if m:
            links[m.group(1)] = m.group(2)
            continue
        if cur is None:
            continue
        # an era entry:  "  //   <raw era text>" immediately followed by "  {"
        m = re.match(r'^  //\s+(\S.*)$', s)
        if m:
            pending = m.group(1)
            expect_era = True
            cur_pending = pending
            continue
        if expect_era and s.strip() == '{':
            cur[1].append(cur_pending)
        expect_era = False
    return zones, links


def write_source(policies, zones, path, only=None):
    with open(path, 'w') as f:
        for name in sorted(policies):
            for r in policies[name]:
                f.write(re.sub(r'\s+', '\t', r.strip()) + '\n')
        for name, eras in zones:
            if only is not None and name not in only:
                continue
            for k, e in enumerate(eras):
                fields = e.split()
                line = '\t'.join(fields[:3]) + ('\t' + ' '.join(fields[3:]) if len(fields) > 3 else '')
                if k == 0:
                    f.write('Zone\t%s\t%s\n' % (name, line))
                else:
                    f.write('\t\t\t%s\n' % line)


def compile_source(src, outdir):
    p = subprocess.run(['zic', '-d', outdir, src], stdout=subprocess.PIPE, stderr=subprocess.STDOUT, text=True)
    return p.returncode, p.stdout


def _tzif_type0(path):
    """(utoff, isdst, abbr) of local time type 0 (the state before the first transition)."""
    data = open(path, 'rb').read()
    if data[:4] != b'TZif':
        raise ValueError('not a TZif file: ' + path)

    def block(off, tsz):
        isutcnt, isstdcnt, leapcnt, timecnt, typecnt, charcnt = struct.unpack('>6l', data[off + 20:off + 44])
        p = off + 44
        times_end = p + timecnt * tsz
        idx = data[times_end:times_end + timecnt]
        tt = times_end + timecnt
        types = [struct.unpack('>lBB', data[tt + 6 * i:tt + 6 * i + 6]) for i in range(typecnt)]
        chars = data[tt + 6 * typecnt: tt + 6 * typecnt + charcnt]
        end = tt + 6 * typecnt + charcnt + leapcnt * (tsz + 4) + isstdcnt + isutcnt
        return types, chars, idx, end
    version = data[4:5]
    types, chars, idx, end = block(0, 4)
    if version >= b'2':
        types, chars, idx, end = block(end, 8)
    utoff, isdst, ai = types[0]
    abbr = chars[ai:chars.index(b'\0', ai)].decode()
    return utoff, isdst, abbr


_LINE = re.compile(r'^\S+\s+(\w{3} \w{3}\s+\d+ \d\d:\d\d:\d\d \d+) UTC? = .* (\S+) isdst=(\d) gmtoff=(-?\d+)$')


def step_function(zi_path, lo_year=1800, hi_year=2060):
    """Sorted list [(start, utoff, isdst, abbr)]; the first entry starts at -inf (None)."""
    out = subprocess.run(['zdump', '-v', '-c', '%d,%d' % (lo_year, hi_year), zi_path], stdout=subprocess.PIPE,
                         text=True).stdout
    rows = []
    for ln in out.splitlines():
        if ln.endswith('= NULL'):
            continue
        m = _LINE.match(ln)
        if not m:
            raise ValueError('cannot parse zdump line: ' + ln)
        dt = datetime.datetime.strptime(re.sub(r'\s+', ' ', m.group(1)), '%a %b %d %H:%M:%S %Y')
        t = int((dt - _EPOCH).total_seconds())
        rows.append((t, int(m.group(4)), int(m.group(3)), m.group(2)))
    steps = []
    if not rows:
        u, d, a = _tzif_type0(zi_path)
        return [(None, u, d, a)]
    # rows come in pairs (second before, at the discontinuity)
    steps.append((None, rows[0][1], rows[0][2], rows[0][3]))
    i = 0
    while i + 1 < len(rows):
        before, at = rows[i], rows[i + 1]
        if at[0] != before[0] + 1:
            raise ValueError('unexpected zdump pairing in ' + zi_path)
        steps.append((at[0], at[1], at[2], at[3]))
        i += 2
    return steps


class Oracle(object):
    def __init__(self, steps):
        self.steps = steps
        self.starts = [s[0] for s in steps[1:]]

    def at(self, t):
        k = bisect.bisect_right(self.starts, t)
        return self.steps[k][1:]

    def segments(self, lo, hi):
        """[(a, b, utoff, isdst, abbr)] covering [lo, hi)."""
        out = []
        k = bisect.bisect_right(self.starts, lo)
        a = lo
        while a < hi:
            b = self.starts[k] if k < len(self.starts) else hi
            b = min(b, hi)
            out.append((a, b) + self.steps[k][1:])
            a = b
            k += 1
        return out


def build(infos_cpp, policies_cpp, workdir, tag):
    """Compile the recorded lines; returns ({zone: Oracle}, info dict)."""
    policies = parse_policies(policies_cpp)
    zones, links = parse_zones(infos_cpp)
    src = os.path.join(workdir, 'tzsrc_%s.txt' % tag)
    zi = os.path.join(workdir, 'zi_%s' % tag)
    write_source(policies, zones, src)
    rc, msg = compile_source(src, zi)
    info = {'zic_rc': rc, 'zic_output': msg.strip()[:2000], 'zones': len(zones),
            'rules': sum(len(v) for v in policies.values()), 'eras': sum(len(e) for _, e in zones),
            'links': len(links)}
    if rc != 0:
        raise RuntimeError('zic failed on the recorded lines: ' + msg)
    oracles = {}
    for name, _ in zones:
        oracles[name] = Oracle(step_function(os.path.join(zi, name)))
    info['discontinuities'] = sum(len(o.starts) for o in oracles.values())
    return oracles, info
