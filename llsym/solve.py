"""Discharge obligations (pc ∧ negated property) with a portfolio of solvers.

For each obligation the query is first tried in-process (z3 Python API, short
timeout); if that is inconclusive it is printed as SMT-LIB2 and given to
`cvc5 --solve-bv-as-int=sum`, `z3` (4.8.12) and `z3-new` (5.1) in parallel; the
first definite answer wins.  Any `(error` line or `unknown` is inconclusive.
A `sat` answer is re-validated by evaluating the formula under the model.
"""
import os
import re
import subprocess
import time
import threading
import tempfile
from concurrent.futures import ThreadPoolExecutor
import z3

EXTERNAL = [
    ('cvc5-int', ['cvc5', '--solve-bv-as-int=sum', '--produce-models']),
    ('z3-4.8', ['z3']),
    ('z3-5.1', ['z3-new']),
]


class Result(object):
    __slots__ = ('status', 'solver', 'time', 'model', 'tag', 'kind', 'detail')

    def __repr__(self):
        return 'Result(%s,%s,%.2fs,%s)' % (self.status, self.solver, self.time, self.tag)


_VAL = re.compile(r'\(\s*\|?([^\s|()]+)\|?\s+(#x[0-9a-fA-F]+|#b[01]+|\(_ bv(\d+) \d+\))\s*\)')


def _parse_values(text):
    out = {}
    for m in _VAL.finditer(text):
        v = m.group(2)
        if v.startswith('#x'):
            out[m.group(1)] = int(v[2:], 16)
        elif v.startswith('#b'):
            out[m.group(1)] = int(v[2:], 2)
        else:
            out[m.group(1)] = int(m.group(3))
    return out


def to_smt2(formulas, variables):
    s = z3.Solver()
    for f in formulas:
        s.add(f)
    txt = s.to_smt2()
    txt = txt.replace('(check-sat)', '')
    # z3 prints its internal "divisor known non-zero" operators; they coincide with the standard ones there
    for op in ('bvudiv', 'bvsdiv', 'bvurem', 'bvsrem', 'bvsmod'):
        txt = txt.replace('(' + op + '_i ', '(' + op + ' ')
    import re as _re
    head = '(set-logic QF_UFBV)\n' if _re.search(r'\(declare-fun \S+ \(\(', txt) else '(set-logic QF_BV)\n'
    tail = '(check-sat)\n'
    if variables:
        tail += '(get-value (%s))\n' % ' '.join(_smtname(v) for v in variables)
    return head + txt + tail


def _smtname(v):
    n = v.decl().name()
    if re.match(r'^[A-Za-z_!.$%&*+/<=>?@^~-][A-Za-z0-9_!.$%&*+/<=>?@^~-]*$', n):
        return n
    return '|%s|' % n


def _run_external(path, timeout, which=None, wait_all=False):
    """Run the external portfolio on an smt2 file.  Returns (status, solver, text); with wait_all every back end
    runs until it answers or times out and (status, 'diff:<agreeing solvers>', text, all_answers) is returned."""
    procs = []
    lock = threading.Lock()
    done = threading.Event()
    answer = [None]
    answers = []

    def runner(name, cmd):
        try:
            p = subprocess.Popen(cmd + [path], stdout=subprocess.PIPE, stderr=subprocess.STDOUT, text=True)
        except OSError:
            return
        with lock:
            procs.append(p)
        try:
            out, _ = p.communicate(timeout=timeout)
        except subprocess.TimeoutExpired:
            p.kill()
            p.communicate()
            return
        first = out.strip().split('\n', 1)[0].strip()
        rest = out.strip().split('\n', 1)[1] if '\n' in out.strip() else ''
        # an error before the verdict (or anywhere in a sat answer) makes the run inconclusive; the
        # "model is not available" error that follows an unsat verdict is the (get-value) line only
        if first == 'sat' and '(error' in rest:
            return
        if first in ('sat', 'unsat'):
            with lock:
                answers.append((first, name, out))
                if answer[0] is None:
                    answer[0] = (first, name, out)
            done.set()

    ths = []
    for name, cmd in EXTERNAL:
        if which and name not in which:
            continue
        th = threading.Thread(target=runner, args=(name, cmd))
        th.start()
        ths.append(th)
    t0 = time.time()
    while time.time() - t0 < timeout + 1:
        if not wait_all and done.wait(0.05):
            break
        if wait_all:
            time.sleep(0.05)
        if not any(t.is_alive() for t in ths):
            break
    with lock:
        for p in procs:
            if p.poll() is None:
                p.kill()
    for t in ths:
        t.join()
    if answer[0] is None:
        return ('unknown', None, '') if not wait_all else ('unknown', 'diff', '', [])
    kinds = set(a[0] for a in answers)
    if len(kinds) > 1:
        r = ('conflict', ','.join(a[1] for a in answers), '')
        return r if not wait_all else r + ([(a[1], a[0]) for a in answers],)
    if wait_all:
        return (answer[0][0], 'diff:' + '/'.join(a[1] for a in answers), answer[0][2], [(a[1], a[0]) for a in answers])
    return answer[0]


def solve(formulas, variables, quick_ms=2000, timeout=60, workdir=None, tag='', which=None, diff=False):
    """Decide satisfiability of And(formulas).  variables: z3 consts wanted in the model."""
    r = Result()
    r.tag = tag
    r.kind = ''
    r.model = None
    r.detail = ''
    t0 = time.time()
    if quick_ms:
        s = z3.Solver()
        s.set('timeout', quick_ms)
        for f in formulas:
            s.add(f)
        res = str(s.check())
        if res == 'unsat' and not diff:
            r.status, r.solver, r.time = 'unsat', 'z3-py', time.time() - t0
            return r
        if res == 'sat':
            m = s.model()
            r.model = dict((v.decl().name(), m.eval(v, model_completion=True).as_long()) for v in variables)
            r.status, r.solver, r.time = 'sat', 'z3-py', time.time() - t0
            return r
    fd, path = tempfile.mkstemp(suffix='.smt2', dir=workdir)
    try:
        with os.fdopen(fd, 'w') as f:
            f.write(to_smt2(formulas, variables))
        if diff:
            # run every back end to completion and compare
            outs = []
            for name, cmd in EXTERNAL:
                st, sv, txt = _run_external(path, timeout, which=[name])
                outs.append((name, st))
            definite = set(st for _, st in outs if st in ('sat', 'unsat'))
            r.detail = str(outs)
            if len(definite) > 1:
                r.status, r.solver, r.time = 'conflict', 'diff', time.time() - t0
                return r
            if not definite:
                r.status, r.solver, r.time = 'unknown', 'diff', time.time() - t0
                return r
            status = definite.pop()
            solver = 'diff:' + '/'.join(n for n, st in outs if st == status)
            txt = ''
            if status == 'sat':
                status, solver, txt = _run_external(path, timeout, which)
        else:
            status, solver, txt = _run_external(path, timeout, which)
    finally:
        try:
            os.unlink(path)
        except OSError:
            pass
    r.status, r.solver, r.time = status, solver, time.time() - t0
    if status == 'sat':
        vals = _parse_values(txt)
        r.model = dict((v.decl().name(), vals.get(v.decl().name(), 0)) for v in variables)
        # validate the model against the formula
        subs = [(v, z3.BitVecVal(r.model[v.decl().name()], v.size())) for v in variables]
        ok = True
        for f in formulas:
            g = z3.simplify(z3.substitute(f, *subs))
            if z3.is_false(g):
                ok = False
                break
            if not z3.is_true(g):
                # formula has other free symbols (fresh uninit bytes ...): ask z3 with the model fixed
                s = z3.Solver()
                s.set('timeout', 10000)
                s.add(g)
                if str(s.check()) != 'sat':
                    ok = False
                    break
        if not ok:
            r.status = 'unknown'
            r.detail = 'external model did not validate'
    return r


def discharge(obls, timeout=60, quick_ms=2000, jobs=5, workdir=None, diff=False):
    """obls: list of (kind, negcond, tag, pc, variables).  Returns list of Result in order."""
    def one(o):
        kind, neg, tag, pc, variables = o
        r = solve(list(pc) + [neg], variables, quick_ms=quick_ms, timeout=timeout, workdir=workdir, tag=tag,
                  diff=diff)
        r.kind = kind
        return r
    if jobs <= 1:
        return [one(o) for o in obls]
    # z3 python objects are not thread safe across contexts when used concurrently: serialise the
    # in-process part by doing it here, and parallelise only the external runs.
    results = [None] * len(obls)
    pending = []
    for i, o in enumerate(obls):
        kind, neg, tag, pc, variables = o
        t0 = time.time()
        fs = list(pc) + [neg]
        if quick_ms:
            s = z3.Solver()
            s.set('timeout', quick_ms)
            for f in fs:
                s.add(f)
            res = str(s.check())
            if res == 'unsat' and not diff:
                r = Result()
                r.status, r.solver, r.time, r.model, r.tag, r.kind, r.detail = 'unsat', 'z3-py', time.time() - t0, None, tag, kind, ''
                results[i] = r
                continue
            if res == 'sat':
                m = s.model()
                r = Result()
                r.model = dict((v.decl().name(), m.eval(v, model_completion=True).as_long()) for v in variables)
                r.status, r.solver, r.time, r.tag, r.kind, r.detail = 'sat', 'z3-py', time.time() - t0, tag, kind, ''
                results[i] = r
                continue
        fd, path = tempfile.mkstemp(suffix='.smt2', dir=workdir)
        with os.fdopen(fd, 'w') as f:
            f.write(to_smt2(fs, variables))
        pending.append((i, path, o))

    def ext(item):
        i, path, o = item
        kind, neg, tag, pc, variables = o
        t0 = time.time()
        try:
            if diff:
                outs = []
                for name, cmd in EXTERNAL:
                    st, sv, txt = _run_external(path, timeout, which=[name])
                    outs.append((name, st, txt))
                definite = set(st for _, st, _ in outs if st in ('sat', 'unsat'))
                if len(definite) > 1:
                    status, solver, txt = 'conflict', 'diff', ''
                elif not definite:
                    status, solver, txt = 'unknown', 'diff', ''
                else:
                    status = list(definite)[0]
                    solver = 'diff:' + '/'.join(n for n, st, _ in outs if st == status)
                    txt = [t for _, st, t in outs if st == status][0]
            else:
                status, solver, txt = _run_external(path, timeout)
        finally:
            try:
                os.unlink(path)
            except OSError:
                pass
        return (i, status, solver, txt, time.time() - t0)

    with ThreadPoolExecutor(jobs) as ex:
        outs = list(ex.map(ext, pending))
    for (i, status, solver, txt, dt) in outs:
        kind, neg, tag, pc, variables = obls[i]
        r = Result()
        r.status, r.solver, r.time, r.tag, r.kind, r.model, r.detail = status, solver, dt, tag, kind, None, ''
        if status == 'sat':
            vals = _parse_values(txt)
            r.model = dict((v.decl().name(), vals.get(v.decl().name(), 0)) for v in variables)
            subs = [(v, z3.BitVecVal(r.model[v.decl().name()], v.size())) for v in variables]
            for f in list(pc) + [neg]:
                g = z3.simplify(z3.substitute(f, *subs))
                if z3.is_false(g):
                    r.status = 'unknown'
                    r.detail = 'external model did not validate'
                    break
        results[i] = r
    return results
