#!/usr/bin/env python3
"""Run the registered quick checks against every seeded change and record which checks detect it
(seeded/<id>/meta.json 'detected_by').  Usage: seed_matrix.py [seed-name-prefix ...]"""
import os, sys, json, subprocess, time
V = '/verif'
PLAN = {
 'C01-window-13-months': ['c01', 'c04'], 'C02-prior-year-rule-le': ['c02'], 'C05-stale-year-key': ['c08', 'c09', 'c05'],
 'C06-floor-div-midnight': ['c06'], 'C10-issorted-last-pair': ['c10'], 'C13-rollover-65535': ['c13'], 'C17-tohourminute-sign': ['c17', 'c15'],
 'C18-le-spill-month-length': ['c18', 'c01'], 'C14-timeout-before-ready': ['c14'], 'C16-manual-equality-total': ['c16'],
 'C07-february-stale-cache': ['c07', 'c08'], 'C03-extended-offset-div-to-zero': ['c03', 'c12'], 'C20-letter-set-order': ['c20'],
 'C15-offset-string-sign': ['c15'], 'C12-extended-offset-div-to-zero': ['c12', 'c03'], 'C08-basic-keep-stale-transitions': ['c08', 'c09'],
 'C10b-issorted-last-pair': ['c10'], 'C06b-negative-midnight': ['c06'], 'C09b-stale-cache-after-out-of-range': ['c09', 'c08'],
 'C15b-zoned-exact-length': ['c15'], 'C02b-prior-rule-same-year': ['c02', 'c20'], 'C12b-basic-at-minute-dropped': ['c12', 'c02'],
 'C05b-same-zone-compare-local': ['c05'], 'C20b-basic-generator-minute-dropped': ['c20', 'c03', 'c12'],
 'C17b-compareto-int8-hour-diff': ['c17'], 'C13b-skip-reset-to-last-sync-time': ['c13'], 'C18b-dayofweek-century-jan-feb': ['c18', 'c06'],
 'C16b-unknown-id-restores-last-hit': ['c16', 'c10'], 'C11b-registry-sorted-by-symbol': ['c03', 'c11'], 'C03b-basic-double-transition-before-window': ['c03'],
 'C01b-window-13-months': ['c01'], 'C08b-stale-active-flag': ['c08', 'c01'], 'C07b-startyear-minus-one': ['c07', 'c09'],
 'C04b-basic-finder-drops-year0-anchor': ['c04'],
 'C14b-timeout-checked-before-ready': ['c14'], 'C02c-negative-save-abbreviation': ['c02'], 'C09c-findmatch-empty-cache-underflow': ['c09', 'c08'],
 'C15c-print-without-rebind': ['c15', 'c08'], 'C18c-leapyear-byte-offset': ['c18', 'c06'],
 'C11-registry-sorted-by-symbol': ['c03', 'c11'], 'C09-transition-pool-6': ['c09', 'c01'], 'C04-cpp-window-13-months': ['c04', 'c01'],
}
sel = sys.argv[1:]
for seed, checks in PLAN.items():
    if sel and not any(seed.startswith(s) for s in sel):
        continue
    meta_p = os.path.join(V, 'seeded', seed, 'meta.json')
    meta = json.load(open(meta_p))
    det = {}
    for c in checks:
        if subprocess.run(['git', '-C', '/repo', 'diff', '--quiet']).returncode != 0:
            print('/repo dirty'); sys.exit(9)
        subprocess.run(['git', '-C', '/repo', 'apply', os.path.join(V, 'seeded', seed, 'patch.diff')], check=True)
        t0 = time.time()
        try:
            p = subprocess.run(['python3-vt', 'checks/%s.py' % c, '--tier', 'quick'], cwd=V, stdout=subprocess.PIPE, stderr=subprocess.STDOUT, text=True, timeout=3000)
            rc, out = p.returncode, p.stdout
        except subprocess.TimeoutExpired:
            rc, out = 'timeout', ''
        finally:
            subprocess.run(['git', '-C', '/repo', 'checkout', '--', '.'])
        viol = [l for l in out.splitlines() if l.startswith('VIOLATION')]
        det[c.upper()] = {'exit': rc, 'violations': len(viol), 'first': (out.splitlines()[out.splitlines().index(viol[0]) + 1].strip()[:300] if viol else ''),
                          'wall_s': round(time.time() - t0)}
        print(seed, c, rc, len(viol), flush=True)
    meta['detected_by'] = [k for k, v in det.items() if v['exit'] == 1]
    meta['check_runs'] = det
    json.dump(meta, open(meta_p, 'w'), indent=1)
