#!/bin/sh
# usage: confirm_seed.sh <worktree> — confirms a seeded change: applies, tests pass, demo fails with / passes without.
WT="$1"
cd "$WT" || exit 9
git -C "$WT" checkout -q -- . 2>/dev/null
echo "--- clean tree: demo"
sh "$WT/_seed/run.sh" "$WT" > "$WT/_seed/.clean.log" 2>&1; C=$?
echo "clean demo exit=$C"
git -C "$WT" apply "$WT/_seed/patch.diff" || { echo "PATCH DOES NOT APPLY"; exit 9; }
echo "--- patched tree: pytest"
( cd "$WT" && /venv/bin/python -m pytest -q -p no:cacheprovider 2>&1 | tail -1 )
echo "--- patched tree: demo"
sh "$WT/_seed/run.sh" "$WT" > "$WT/_seed/.patched.log" 2>&1; P=$?
echo "patched demo exit=$P"
tail -3 "$WT/_seed/.patched.log"
if [ "$C" = "0" ] && [ "$P" != "0" ]; then echo "CONFIRMED"; else echo "NOT CONFIRMED"; fi
