#!/usr/bin/env python3
"""C05 — instant <-> zoned date-time round trip; conversions preserve the instant; compareTo orders by instant.

Kernel lemmas (fully symbolic instant and offsets) on OffsetDateTime / ZonedDateTime with the calendar contracts of
C06, plus the database-zone instances: every zone's offsets are shown to lie inside the lemma's range (|offset| <=
16 h, never the error value) for every instant of 2000..2049, and the complete round trip / conversion is executed
symbolically for a seed-rotated sample of zones (all zones in the thorough tier)."""
import sys
import os
import random
sys.path.insert(0, os.path.dirname(os.path.abspath(__file__)))
import common  # noqa: E402
import zones  # noqa: E402
import z3  # noqa: E402
from spec import calendar as cal  # noqa: E402

INT32_MIN, INT32_MAX = -(1 << 31), (1 << 31) - 1
YEARS = list(range(2000, 2050))


def _bv(v, bits):
    return z3.BitVecVal(v, bits) if isinstance(v, int) else v


def post_odt(item, obs, leaf):
    t, o = leaf.nondet[0][1], leaf.nondet[1][1]
    f = dict((k, z3.Extract(7, 0, _bv(obs[k], 64))) for k in ('yearTiny', 'month', 'day', 'hour', 'minute', 'second'))
    yt, m, d = f['yearTiny'], f['month'], f['day']
    secs = z3.ZeroExt(56, f['hour']) * 3600 + z3.ZeroExt(56, f['minute']) * 60 + z3.ZeroExt(56, f['second'])
    from llsym import contracts
    total = z3.SignExt(32, contracts.SPEC_DAYS(yt, m, d)) * 86400 + secs
    return [('fields==civil(t+60*offset)',
             z3.Or(z3.Not(contracts.SPEC_VALID(yt, m, d)), total != z3.SignExt(32, t) + z3.SignExt(48, o) * 60))]


def spec_concrete(r, tag, nd, obs):
    if r['entry'] != 'c05_odt_roundtrip':
        return False
    t = nd['t'] - (1 << 32) if nd['t'] >> 31 else nd['t']
    o = nd['offset'] - (1 << 16) if nd['offset'] >> 15 else nd['offset']
    loc = t + 60 * o
    y, m, d = cal.civil(loc // 86400)
    s = loc % 86400
    return (obs['yearTiny'] + 2000, obs['month'], obs['day'], obs['hour'], obs['minute'], obs['second']) != (
        y, m, d, s // 3600, s // 60 % 60, s % 60)


def main():
    a = common.parse_args('C05')
    thorough = a.tier == 'thorough'
    kc = common.KernelCheck(a, ['h_c05.cpp', 'h_zone.cpp'], with_zonedb=True, with_zonedbx=True)
    kc.spec_concrete = spec_concrete
    kc.build()
    to = 900 if thorough else 300
    omax = 1800 if thorough else 960
    cuts = [INT32_MIN, -(1 << 30), 0, 1 << 30, INT32_MAX + 1]
    items = []
    for k in range(4):
        lo, hi = cuts[k], cuts[k + 1] - 1
        items.append(dict(name='odt_roundtrip/%d' % k, entry='c05_odt_roundtrip', args=[lo, hi, omax, 0], timeout=to,
                          feas_ms=3000, ldt_contracts=True, post=post_odt))
        items.append(dict(name='odt_convert/%d' % k, entry='c05_odt_convert', args=[lo, hi, omax, 0], timeout=to,
                          feas_ms=3000, ldt_contracts=True))
        # manual zones: stay 16 h away from both ends of int32 (there the local date-time is not representable;
        # that edge is covered by odt_roundtrip under its explicit representability precondition)
        items.append(dict(name='zdt_manual/%d' % k, entry='c05_zdt_manual',
                          args=[max(lo, INT32_MIN + 1 + 57600), min(hi, INT32_MAX - 57600), 0, 0], timeout=to,
                          feas_ms=3000, ldt_contracts=True))
    items.append(dict(name='odt_compare', entry='c05_odt_compare', args=[INT32_MIN + 1, INT32_MAX, omax, 0],
                      timeout=to, feas_ms=3000, ldt_contracts=True))
    # database zones, complete symbolic round trip on a sample
    n_ext, n_bas = zones.registry_sizes(kc)
    rnd = random.Random(a.seed)
    k_ext = 10 if thorough else 1
    k_bas = 6 if thorough else 1
    ext_sel = sorted(rnd.sample(range(n_ext), k_ext))
    bas_sel = sorted(rnd.sample(range(n_bas), k_bas))
    mgr_sel = sorted(rnd.sample(range(n_ext), 4 if thorough else 1))
    for zi in ext_sel:
        other = rnd.randrange(n_ext)
        for y in (YEARS[a.seed % 5::5] if thorough else YEARS[a.seed % 25::25]):
            lo, hi = cal.epoch_seconds(y), cal.epoch_seconds(y + 1)
            items.append(dict(name='zone/ext/%03d/%d' % (zi, y), entry='z_ext_zdt', args=[zi, lo, hi, other], timeout=to,
                              ldt_contracts=True, year_contract=(y, lo, hi), loop_limit=300, feas_ms=20000))
    for zi in bas_sel:
        other = rnd.randrange(n_bas)
        for y in (YEARS[a.seed % 5::5] if thorough else YEARS[a.seed % 25::25]):
            for (lo, hi) in zones.year_ranges('bas', y):
                items.append(dict(name='zone/bas/%03d/%d/%d' % (zi, y, lo), entry='z_bas_zdt', args=[zi, lo, hi, other],
                                  timeout=to, ldt_contracts=True, year_contract=(y, lo, hi), loop_limit=300, feas_ms=20000))
    for zi in mgr_sel:
        other = rnd.randrange(n_ext)
        for y in (YEARS[a.seed % 5::5] if thorough else YEARS[a.seed % 25::25]):
            lo, hi = cal.epoch_seconds(y), cal.epoch_seconds(y + 1)
            items.append(dict(name='zone/mgr/%03d/%d' % (zi, y), entry='z_mgr_zdt', args=[zi, lo, hi, other], timeout=to,
                              ldt_contracts=True, year_contract=(y, lo, hi), loop_limit=500, feas_ms=20000))
    # compareTo inside one database zone, around backward offset changes (zic tells where they are; the claim checked is
    # about the real code only): t within 2 h before .. 1 h after the change, t + d up to 2 h later
    info = zones.build_oracles(kc, ['ext', 'bas'])
    xn = zones.registry_names(kc, 'ext', n_ext)
    bn = zones.registry_names(kc, 'bas', n_bas)

    def backward_steps(scope, nm):
        o = zones.ORACLES[scope][nm]
        out = []
        for k in range(1, len(o.steps)):
            T = o.steps[k][0]
            if o.steps[k][1] >= o.steps[k - 1][1] or T < cal.epoch_seconds(2000) or T >= cal.epoch_seconds(2050):
                continue
            y = cal.civil(T // 86400)[0]
            if T - 3 * 86400 < cal.epoch_seconds(y) or T + 3 * 86400 >= cal.epoch_seconds(y + 1):
                continue        # the year contract of the item covers one UTC year
            out.append((T, y))
        return out
    cand = {'ext': [(i, T, y) for i in range(n_ext) for (T, y) in backward_steps('ext', xn[i])],
            'bas': [(i, T, y) for i in range(n_bas) for (T, y) in backward_steps('bas', bn[i])]}
    n_order = {'ext': 160 if thorough else 12, 'bas': 160 if thorough else 12, 'mgr': 32 if thorough else 4}
    order_items = 0
    for kind, entry, scope in (('ext', 'z_ext_order', 'ext'), ('bas', 'z_bas_order', 'bas'), ('mgr', 'z_mgr_order', 'ext')):
        for (zi, T, y) in rnd.sample(cand[scope], min(n_order[kind], len(cand[scope]))):
            day0 = (T - 7200) // 86400 - 1
            items.append(dict(name='order/%s/%03d/%d' % (kind, zi, T), entry=entry, args=[zi, T - 7200, T + 3600, 7200], timeout=to,
                              ldt_window=(day0, 4), year_contract=(y, cal.epoch_seconds(y), cal.epoch_seconds(y + 1)),
                              loop_limit=500, feas_ms=20000))
            order_items += 1
    for it in items:
        it['quick_ms'] = 8000
    kc.ext_jobs = 8
    res = kc.run_items(items, jobs=16)
    kc.judge_kernel(res)
    # every database zone: offsets inside the lemma's range at every instant (engine run as in C01/C02)
    lem = kc.run_items([dict(name='year_lemma/%d' % y, year=y) for y in YEARS], jobs=16, fn=zones.run_year_lemma)
    zones.judge_lemmas(kc, lem)
    zsel_x = range(n_ext) if thorough else sorted(rnd.sample(range(n_ext), 60))
    zsel_b = range(n_bas) if thorough else sorted(rnd.sample(range(n_bas), 40))
    zitems = [dict(name='ext/%s' % xn[i], scope='ext', index=i, zone=xn[i], years=YEARS, offset_range=960) for i in zsel_x]
    zitems += [dict(name='bas/%s' % bn[i], scope='bas', index=i, zone=bn[i], years=YEARS, offset_range=960) for i in zsel_b]
    zres = kc.run_items(zitems, jobs=16, fn=zones.run_zone_item)
    zones.judge_zone_results(kc, [r for r in zres if r['scope'] == 'ext'], 'ext')
    zones.judge_zone_results(kc, [r for r in zres if r['scope'] == 'bas'], 'bas')
    kc.results = [r for r in kc.results if 'obligations' in r]
    cov = kc.kernel_coverage(
        rule='one obligation = path condition AND negated assertion/spec/UB trap over the symbolic instant t and offsets; for '
             'database zones t ranges over one UTC year per item; distinct = (item, path, obligation)',
        bounds={'t': 'all int32 except the sentinel for fixed offsets and manual zones; 2000..2049 for database zones',
                'offsets': '|offset| <= %d min (fixed), std in +-14 h and dst in +-2 h (manual)' % omax,
                'precondition': 'the local date-time t + 60*offset is itself representable in acetime_t (documented range)',
                'zones_full_roundtrip': {'extended': len(ext_sel), 'basic': len(bas_sel), 'manager': len(mgr_sel)},
                'same_zone_compareTo': '%d seed-drawn backward offset changes (of %d extended / %d basic in 2000..2049): t in [T-2h, T+1h), '
                                       'second instant t+d with d in [1, 7200] s, exact 4-day calendar window contract' % (
                                           order_items, len(cand['ext']), len(cand['bas'])),
                'zones_offset_range': {'extended': len(list(zsel_x)), 'basic': len(list(zsel_b))}},
        outside=['instants whose local date-time is outside int32 (documented limit)', 'offsets beyond +-%d min' % omax])
    cov['zone_offset_range_queries'] = sum(r['queries'] for r in zres)
    cov['zone_offset_range_unsat'] = sum(r['unsat'] for r in zres)
    kc.finish(cov, ['calendar contracts (LocalDate::forEpochDays/toEpochDays, LocalTime::forSeconds/toSeconds) are the C06 '
                    'lemmas; their preconditions are obligations at every call site',
                    'lemma use inside harnesses (assume after the same-run obligation) is marked in the harness source'])


if __name__ == '__main__':
    main()
