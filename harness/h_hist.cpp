// C08 / C09 — call histories over shared processors and zone managers.
// The history is given by the driver through __verif_param():
//   p[0] = n (history length), p[1] = zone A, p[2] = zone B, p[3] = scope-specific (manager cache size)
//   then per element (n history elements + 1 final query): kind, zone (0=A,1=B), lo, hi
//   kind: 0 getUtcOffset, 1 getDeltaOffset, 2 getAbbrev, 3 printTo
// every argument t is symbolic within [lo, hi) (lo == hi means the error sentinel).
#include <AceTime.h>
#include "verif.h"
using namespace ace_time;

class BufPrint : public Print {
  public:
    char buf[64]; uint8_t n = 0;
    size_t write(uint8_t c) override { if (n < 63) buf[n++] = (char) c; return 1; }
    using Print::write;
    void finish() { buf[n] = 0; }
};

static int32_t arg(long lo, long hi) {
  if (lo == hi) return LocalDate::kInvalidEpochSeconds;
  int32_t t = __verif_nondet_i32("t");
  __verif_assume(t >= (int32_t) lo && t < (int32_t) hi);
  return t;
}

static void call(const TimeZone& tz, long kind, int32_t t) {
  if (kind == 0) { tz.getUtcOffset(t); }
  else if (kind == 1) { tz.getDeltaOffset(t); }
  else if (kind == 2) { tz.getAbbrev(t); }
  else { BufPrint p; tz.printTo(p); }
}

static void compare(const TimeZone& used, const TimeZone& fresh, long kind, int32_t t) {
  if (kind == 0) {
    int16_t a = used.getUtcOffset(t).toMinutes(), b = fresh.getUtcOffset(t).toMinutes();
    __verif_observe("used", a); __verif_observe("fresh", b);
    __verif_assert(a == b, "getUtcOffset independent of history");
  } else if (kind == 1) {
    int16_t a = used.getDeltaOffset(t).toMinutes(), b = fresh.getDeltaOffset(t).toMinutes();
    __verif_observe("used", a); __verif_observe("fresh", b);
    __verif_assert(a == b, "getDeltaOffset independent of history");
  } else if (kind == 2) {
    const char* a = used.getAbbrev(t);
    char ca[16]; strncpy(ca, a, 15); ca[15] = 0;       // copy: both may point into processor buffers
    const char* b = fresh.getAbbrev(t);
    __verif_observe_str("used", ca); __verif_observe_str("fresh", b);
    __verif_assert(strcmp(ca, b) == 0, "getAbbrev independent of history");
  } else {
    BufPrint pa, pb;
    used.printTo(pa); fresh.printTo(pb);
    pa.finish(); pb.finish();
    __verif_observe_str("used", pa.buf); __verif_observe_str("fresh", pb.buf);
    __verif_assert(strcmp(pa.buf, pb.buf) == 0, "printTo independent of history");
  }
}

template <typename PROC, typename ZI>
static void sharedProcessor(const ZI* const* registry) {
  long n = __verif_param(0);
  const ZI* za = registry[__verif_param(1)];
  const ZI* zb = registry[__verif_param(2)];
  PROC shared;
  TimeZone A = TimeZone::forZoneInfo(za, &shared);
  TimeZone B = TimeZone::forZoneInfo(zb, &shared);
  for (long i = 0; i < n; i++) {
    long kind = __verif_param(4 + 4 * i), z = __verif_param(5 + 4 * i);
    int32_t t = arg(__verif_param(6 + 4 * i), __verif_param(7 + 4 * i));
    call(z ? B : A, kind, t);
  }
  long kind = __verif_param(4 + 4 * n), z = __verif_param(5 + 4 * n);
  int32_t t = arg(__verif_param(6 + 4 * n), __verif_param(7 + 4 * n));
  PROC own;
  TimeZone F = TimeZone::forZoneInfo(z ? zb : za, &own);
  compare(z ? B : A, F, kind, t);
}

ENTRY(hist_ext_shared) { sharedProcessor<ExtendedZoneProcessor, extended::ZoneInfo>(zonedbx::kZoneRegistry); }
ENTRY(hist_bas_shared) { sharedProcessor<BasicZoneProcessor, basic::ZoneInfo>(zonedb::kZoneRegistry); }

// zone manager with a processor cache of SIZE slots and SIZE+1 zones competing (p[3] = SIZE, zones p[1], p[2], p[1]+1 ...)
template <typename MGR, typename PROC, typename ZI>
static void managed(MGR& mgr, const ZI* const* registry) {
  long n = __verif_param(0);
  TimeZone A = mgr.createForZoneIndex((uint16_t) __verif_param(1));
  TimeZone B = mgr.createForZoneIndex((uint16_t) __verif_param(2));
  for (long i = 0; i < n; i++) {
    long kind = __verif_param(4 + 4 * i), z = __verif_param(5 + 4 * i);
    int32_t t = arg(__verif_param(6 + 4 * i), __verif_param(7 + 4 * i));
    call(z ? B : A, kind, t);
  }
  long kind = __verif_param(4 + 4 * n), z = __verif_param(5 + 4 * n);
  int32_t t = arg(__verif_param(6 + 4 * n), __verif_param(7 + 4 * n));
  PROC own;
  TimeZone F = TimeZone::forZoneInfo(registry[__verif_param(z ? 2 : 1)], &own);
  compare(z ? B : A, F, kind, t);
}
ENTRY(hist_ext_mgr1) { ExtendedZoneManager<1> m(zonedbx::kZoneRegistrySize, zonedbx::kZoneRegistry); managed<ExtendedZoneManager<1>, ExtendedZoneProcessor, extended::ZoneInfo>(m, zonedbx::kZoneRegistry); }
ENTRY(hist_ext_mgr2) { ExtendedZoneManager<2> m(zonedbx::kZoneRegistrySize, zonedbx::kZoneRegistry); managed<ExtendedZoneManager<2>, ExtendedZoneProcessor, extended::ZoneInfo>(m, zonedbx::kZoneRegistry); }
ENTRY(hist_bas_mgr1) { BasicZoneManager<1> m(zonedb::kZoneRegistrySize, zonedb::kZoneRegistry); managed<BasicZoneManager<1>, BasicZoneProcessor, basic::ZoneInfo>(m, zonedb::kZoneRegistry); }
ENTRY(hist_bas_mgr2) { BasicZoneManager<2> m(zonedb::kZoneRegistrySize, zonedb::kZoneRegistry); managed<BasicZoneManager<2>, BasicZoneProcessor, basic::ZoneInfo>(m, zonedb::kZoneRegistry); }

// lemma for the out-of-range classes: fields of the real LocalDate::forEpochSeconds(t), t in [a0, a1)
ENTRY(hist_range_lemma) {
  int32_t t = __verif_nondet_i32("t");
  __verif_assume(t >= (int32_t) a0 && t < (int32_t) a1);
  LocalDate ld = LocalDate::forEpochSeconds(t);
  __verif_observe("yearTiny", ld.yearTiny());
  __verif_observe("month", ld.month());
  __verif_observe("day", ld.day());
}
