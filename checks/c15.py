#!/usr/bin/env python3
"""C15 — printed forms are exact ISO-8601 and parse back to the same value (print into an in-memory Print, parse back)."""
import sys
import os
import random
sys.path.insert(0, os.path.dirname(os.path.abspath(__file__)))
import common  # noqa: E402

RULE = ('one obligation = path condition AND negated assertion over symbolic field values / offsets / string bytes; the '
        'printed bytes are terms of the field values (decimal digits through the shim Print), the parsers run on those terms; '
        'distinct = (entry, path, assertion)')


def items(a, thorough):
    to = 600 if thorough else 200
    rnd = random.Random(a.seed)
    out = [dict(name=n, entry=n, args=[0, 0, 0, 0], timeout=to, loop_limit=100, feas_ms=5000, budget_s=900)
           for n in ('c15_ldt', 'c15_offset', 'c15_odt', 'c15_errors')]
    for ds in (0, 60, -60, 30, 120):
        out.append(dict(name='c15_zdt_manual/dst=%d' % ds, entry='c15_zdt_manual', args=[ds, 0, 0, 0], timeout=to,
                        loop_limit=100, feas_ms=5000, budget_s=600))
    for L in range(0, 26):
        out.append(dict(name='c15_short/len=%02d' % L, entry='c15_short', args=[L, 0, 0, 0], timeout=to, loop_limit=100))
    zs = range(387) if thorough else sorted(rnd.sample(range(387), 40))
    for i in zs:
        out.append(dict(name='c15_zdt_zone/%03d' % i, entry='c15_zdt_zone', args=[i, rnd.randrange(0, 1577923200), rnd.randrange(387), 0],
                        loop_limit=400, reach=0))
    return out


def bounds(a, thorough):
    return {'date_time_fields': 'yearTiny -127..127, month 1..12, day 1..31, 00:00:00..23:59:59, all symbolic',
            'offset': '-5999..5999 minutes (+-99:59) symbolic; manual zones: std +-14 h symbolic, dst in {0, +-60, 30, 120} min, date-time fields concrete',
            'short_strings': 'every length 0..25, bytes symbolic non-NUL',
            'database_zones': '%s zones of zonedbx at a seed-drawn concrete instant (name bytes from the table)' % ('all 387' if thorough else '40'),
            'loop_unwinding': 100}


if __name__ == '__main__':
    common.simple_kernel_main('C15', ['h_c15.cpp'], items, RULE, bounds, with_zonedb=False, with_zonedbx=True,
                              outside=['decimal printing and zero padding come from the shim Print / printPad2To (documented Arduino behaviour)',
                                       'offsets beyond +-99:59'], jobs=16)
