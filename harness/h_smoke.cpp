#include <AceTime.h>
#include "verif.h"
using namespace ace_time;
ENTRY(smoke_ldt) {
  int32_t t = __verif_nondet_i32("t");
  __verif_assume(t >= (int32_t) a0 && t < (int32_t) a1);
  LocalDateTime ldt = LocalDateTime::forEpochSeconds(t);
  __verif_observe("year", ldt.year());
  __verif_observe("month", ldt.month());
  __verif_observe("day", ldt.day());
  __verif_assert(ldt.toEpochSeconds() == t, "roundtrip");
}
ENTRY(smoke_zone) {
  static ExtendedZoneProcessor proc;
  TimeZone tz = TimeZone::forZoneInfo(zonedbx::kZoneRegistry[a0], &proc);
  __verif_observe("off", tz.getUtcOffset((acetime_t) a1).toMinutes());
  __verif_observe("delta", tz.getDeltaOffset((acetime_t) a1).toMinutes());
  __verif_observe_str("abbrev", tz.getAbbrev((acetime_t) a1));
}
