"""Zone-level machinery shared by C01 / C02 (and reused by C05, C07, C08, C09):
symbolic instant t, zone and year as driver case split, zic as the oracle."""
import os
import sys
import time
import traceback
sys.path.insert(0, os.path.dirname(os.path.abspath(__file__)))
import common  # noqa: E402
from llsym import engine, loader, contracts, build  # noqa: E402
from spec import calendar as cal  # noqa: E402
from spec import zicoracle  # noqa: E402

ORACLES = {}      # scope -> {zone name: Oracle}; filled in the parent before the workers fork
ENTRY = {'ext': 'z_ext_query', 'bas': 'z_bas_query'}


def year_ranges(scope, year):
    e0, e1 = cal.epoch_seconds(year), cal.epoch_seconds(year + 1)
    if scope == 'bas':
        return [(e0, e0 + 86400), (e0 + 86400, e1)]
    return [(e0, e1)]


def explore(mod, scope, zi, lo, hi, year, entry=None, extra_args=(), watches=None):
    eng = engine.Engine(mod, solver_timeout_ms=20000, loop_limit=300)
    eng.resolve_bools = True
    eng.fresh_tag = '_' + scope
    if watches:
        eng.watches.update(watches)
    eng.intercepts[contracts.LD_FOR_EPOCH_SECONDS] = contracts.year_contract(year, lo, hi)
    leaves = eng.run(entry or ENTRY[scope], [zi, lo, hi] + list(extra_args) + [0] * (1 - len(extra_args)))
    return eng, leaves


def _obs(leaf):
    d = {}
    for k, v in leaf.obs:
        d[k] = v
    return d


def _free_vars(e, acc=None, seen=None):
    import z3
    acc = set() if acc is None else acc
    seen = set() if seen is None else seen
    if e.get_id() in seen:
        return acc
    seen.add(e.get_id())
    if z3.is_const(e) and e.decl().kind() == z3.Z3_OP_UNINTERPRETED:
        acc.add(e.decl().name())
    for ch in e.children():
        _free_vars(ch, acc, seen)
    return acc


def t_only(pc):
    """Conjunction of the path-condition conjuncts that mention only the instant t (contract variables are
    existential; they are dropped for the coverage guard)."""
    import z3
    keep = [c for c in pc if _free_vars(c) <= {'t!0'}]
    return z3.And(keep) if keep else z3.BoolVal(True)


ADD_TRANSITION = None   # mangled name of BasicZoneProcessor::addTransition, resolved from the module


def _watch_add_transition(eng, st, args):
    """BasicZoneProcessor::addTransition is entered with the 5-entry cache already full => the new
    transition is silently dropped (statement of C02/C09: must never happen for the shipped zones)."""
    this = args[0]
    n = eng.load(st, loader.Ptr(this.obj, this.off + _NUM_TRANSITIONS_OFF[0]), 1, 'i', 8)
    if isinstance(n, int) and n >= 5:
        st.user.setdefault('add_transition_full', []).append(n)


_NUM_TRANSITIONS_OFF = [None]


def _resolve_layout(mod):
    global ADD_TRANSITION
    if _NUM_TRANSITIONS_OFF[0] is not None:
        return
    cands = [n for n in mod.functions if '18BasicZoneProcessor13addTransitionE' in n]
    if len(cands) != 1:
        raise engine.EngineError('cannot resolve BasicZoneProcessor::addTransition: %s' % cands)
    ADD_TRANSITION = cands[0]
    eng = engine.Engine(mod)
    lv = eng.run('z_layout', [0, 0, 0, 0])
    _NUM_TRANSITIONS_OFF[0] = dict(lv[0].obs)['bas_numTransitions_off']


def _i16(v):
    """observed 64-bit sign-extended value -> z3 BV16 or python int (signed)."""
    import z3
    if isinstance(v, int):
        v &= 0xffff
        return v - 0x10000 if v & 0x8000 else v
    return z3.Extract(15, 0, v)


def run_zone_item(item):
    """Worker: one zone, all requested years.  Compares every leaf with the zic step function."""
    import z3
    t0 = time.time()
    scope, zi, name = item['scope'], item['index'], item['zone']
    out = {'name': '%s/%s' % (scope, name), 'zone': name, 'scope': scope, 'index': zi, 'years': item['years'],
           'ext_index': item.get('ext_index'),
           'leaves': 0, 'steps': 0, 'queries': 0, 'unsat': 0, 'sat': [], 'unknown': 0, 'defects': [],
           'error': None, 'solver_time': 0.0, 'functions': [], 'cover_checks': 0, 'samples': [],
           'leafdata': {} if item.get('keep_leaves') else None}
    try:
        mod = common._module()
        oracle = ORACLES[scope][name]
        called = set()
        watches = None
        if scope == 'bas':
            _resolve_layout(mod)
            watches = {ADD_TRANSITION: _watch_add_transition}
        out['relational_queries'] = 0
        out['dropped_transitions'] = []
        for year in item['years']:
            bas_leaves = []
            for (lo, hi) in year_ranges(scope, year):
                eng, leaves = explore(mod, scope, zi, lo, hi, year, watches=watches)
                bas_leaves.extend(leaves)
                for lf in leaves:
                    for w in lf.user.get('add_transition_full', []):
                        if (year, w) not in out['dropped_transitions']:
                            out['dropped_transitions'].append((year, w))
                called |= eng.called
                out['solver_time'] += eng.ctx.time
                segs = oracle.segments(lo, hi)
                pcs = []
                for lf in leaves:
                    out['steps'] += lf.steps
                    if lf.status == 'defect':
                        d = dict(lf.defect)
                        d['year'] = year
                        d['range'] = [lo, hi]
                        out['defects'].append(d)
                        pcs.append(t_only(lf.pc))
                        continue
                    if lf.status != 'ok':
                        continue
                    out['leaves'] += 1
                    t = lf.nondet[0][1]
                    o = _obs(lf)
                    pcs.append(t_only(lf.pc))
                    s = z3.Solver()
                    s.set('timeout', 20000)
                    for c in lf.pc:
                        s.add(c)
                    for (kind, neg, tag, pc) in lf.obligations:
                        # contract preconditions / assertions recorded on the path
                        s2 = z3.Solver()
                        s2.set('timeout', 20000)
                        s2.add(*pc)
                        s2.add(neg)
                        r = str(s2.check())
                        out['queries'] += 1
                        if r == 'unsat':
                            out['unsat'] += 1
                        elif r == 'sat':
                            out['sat'].append({'kind': kind, 'tag': tag, 't': s2.model().eval(t, model_completion=True).as_long(),
                                               'year': year})
                        else:
                            out['unknown'] += 1
                    off, delta, abbrev = _i16(o['off']), _i16(o['delta']), o['abbrev']
                    if item.get('offset_range'):
                        # C05: the offset handed to OffsetDateTime::forEpochSeconds is a non-error value within range
                        R = item['offset_range']
                        s.push()
                        s.add(z3.Or(off < -R, off > R, off == -32768))
                        r = str(s.check())
                        out['queries'] += 1
                        if r == 'unsat':
                            out['unsat'] += 1
                        elif r == 'sat':
                            out['sat'].append({'kind': 'offset-range', 'tag': 'offset within +-%d' % R, 'year': year,
                                               't': s.model().eval(t, model_completion=True).as_long()})
                        else:
                            out['unknown'] += 1
                        s.pop()
                    for (a, b, utoff, isdst, abbr) in segs:
                        diffs = []
                        if utoff % 60 != 0:
                            diffs.append(z3.BoolVal(True))
                        else:
                            diffs.append(off != utoff // 60)
                        diffs.append((delta != 0) != bool(isdst))
                        if abbrev != abbr.encode():
                            diffs.append(z3.BoolVal(True))
                        s.push()
                        s.add(t >= a, t < b, z3.Or(diffs))
                        t1 = time.time()
                        r = str(s.check())
                        out['solver_time'] += time.time() - t1
                        out['queries'] += 1
                        if r == 'unsat':
                            out['unsat'] += 1
                        elif r == 'sat':
                            tv = s.model().eval(t, model_completion=True).as_long()
                            tv = tv - (1 << 32) if tv >> 31 else tv
                            out['sat'].append({'kind': 'oracle', 't': tv, 'year': year,
                                               'expected': [utoff, isdst, abbr]})
                        else:
                            out['unknown'] += 1
                        if len(out['samples']) < 2:
                            out['samples'].append({'zone': name, 'year': year, 'segment': [a, b, utoff, isdst, abbr],
                                                   'leaf_abbrev': abbrev.decode('latin1'),
                                                   'leaf_off': common._term_str(o['off']),
                                                   'pc': [c.sexpr()[:120] for c in lf.pc[-2:]], 'result': r})
                        s.pop()
                    if len(out.setdefault('validate', [])) < 2 and (year == item['years'][0] or year == item['years'][-1]):
                        # engine-vs-native validation point: a model of this leaf and the leaf's answers at that instant
                        s.push()
                        if str(s.check()) == 'sat':
                            mdl = s.model()
                            tv = mdl.eval(t, model_completion=True).as_long()
                            tv = tv - (1 << 32) if tv >> 31 else tv

                            def ev(x):
                                if isinstance(x, int):
                                    return x
                                g = mdl.eval(x, model_completion=True)
                                v_ = g.as_long()
                                return v_ - (1 << 16) if v_ >> 15 else v_
                            out['validate'].append({'t': tv, 'off': ev(off), 'delta': ev(delta), 'abbrev': abbrev.decode('latin1')})
                        s.pop()
                    if out['leafdata'] is not None:
                        out['leafdata'].setdefault(year, []).append(
                            (z3.And(lf.pc).sexpr() if lf.pc else 'true', z3.simplify(off).sexpr() if not isinstance(off, int) else off,
                             z3.simplify(delta).sexpr() if not isinstance(delta, int) else delta, abbrev.decode('latin1')))
                # guard against a missed path: the leaves cover the whole range
                s = z3.Solver()
                s.set('timeout', 20000)
                t = z3.BitVec('t!0', 32)
                s.add(t >= lo, t < hi, z3.Not(z3.Or(pcs)) if pcs else z3.BoolVal(True))
                r = str(s.check())
                out['cover_checks'] += 1
                if r != 'unsat':
                    out['sat'].append({'kind': 'coverage-gap', 't': None, 'year': year, 'result': r})
            if item.get('ext_index') is not None:
                # relational obligation: the extended processor gives the same answers at every instant
                lo, hi = cal.epoch_seconds(year), cal.epoch_seconds(year + 1)
                engx, xleaves = explore(mod, 'ext', item['ext_index'], lo, hi, year)
                called |= engx.called
                for lb in bas_leaves:
                    if lb.status != 'ok':
                        continue
                    ob = _obs(lb)
                    for lx in xleaves:
                        if lx.status != 'ok':
                            continue
                        ox = _obs(lx)
                        t = lb.nondet[0][1]
                        s = z3.Solver()
                        s.set('timeout', 20000)
                        s.add(*lb.pc)
                        s.add(*lx.pc)
                        diffs = [_i16(ob['off']) != _i16(ox['off']), _i16(ob['delta']) != _i16(ox['delta'])]
                        if ob['abbrev'] != ox['abbrev']:
                            diffs.append(z3.BoolVal(True))
                        s.add(z3.Or(diffs))
                        t1 = time.time()
                        r = str(s.check())
                        out['solver_time'] += time.time() - t1
                        out['queries'] += 1
                        out['relational_queries'] += 1
                        if r == 'unsat':
                            out['unsat'] += 1
                        elif r == 'sat':
                            tv = s.model().eval(t, model_completion=True).as_long()
                            tv = tv - (1 << 32) if tv >> 31 else tv
                            out['sat'].append({'kind': 'relational', 't': tv, 'year': year})
                        else:
                            out['unknown'] += 1
        out['functions'] = sorted(called)
    except engine.EngineError as e:
        out['error'] = 'engine: %s' % e
    except loader.Unsupported as e:
        out['error'] = 'unsupported: %s' % e
    except Exception as e:  # noqa
        out['error'] = 'exception: %s\n%s' % (e, traceback.format_exc())
    out['wall'] = round(time.time() - t0, 2)
    out['solver_time'] = round(out['solver_time'], 3)
    return out


def run_year_lemma(item):
    """Worker: lemma L_year on the real IR of LocalDate::forEpochSeconds (general calendar contracts)."""
    import z3
    t0 = time.time()
    year = item['year']
    out = {'name': 'year_lemma/%d' % year, 'year': year, 'status': None, 'error': None, 'pre': [], 'paths': 0}
    try:
        mod = common._module()
        eng = engine.Engine(mod, solver_timeout_ms=30000)
        contracts.install(eng)
        lo, hi = cal.epoch_seconds(year), cal.epoch_seconds(year + 1)
        leaves = eng.run('z_year_lemma', [lo, hi, 0, 0])
        out['paths'] = len(leaves)
        status = 'unsat'
        for lf in leaves:
            if lf.status != 'ok':
                if lf.status == 'defect':
                    status = 'defect: %s' % lf.defect['msg']
                continue
            t = lf.nondet[0][1]
            o = _obs(lf)
            f = [z3.Extract(7, 0, o[k]) if not isinstance(o[k], int) else z3.BitVecVal(o[k] & 0xff, 8)
                 for k in ('yearTiny', 'month', 'day')]
            qs = [(kind + ':' + tag, list(pc) + [neg]) for (kind, neg, tag, pc) in lf.obligations]
            qs.append(('lemma', list(lf.pc) + [contracts.year_lemma_negation(t, f[0], f[1], f[2], year)]))
            for tag, fs in qs:
                s = z3.Solver()
                s.set('timeout', 120000)
                s.add(*fs)
                r = str(s.check())
                out['pre'].append((tag, r))
                if r != 'unsat':
                    status = '%s: %s' % (tag, r)
                    if r == 'sat':
                        out['model_t'] = s.model().eval(t, model_completion=True).as_long()
        out['status'] = status
        out['functions'] = sorted(eng.called)
    except Exception as e:  # noqa
        out['error'] = 'exception: %s\n%s' % (e, traceback.format_exc())
    out['wall'] = round(time.time() - t0, 2)
    return out


def registry_names(kc, scope, n):
    """Zone names of the compiled registry, read through the real accessors (concrete engine runs)."""
    mod = loader.Module(kc.bc)
    names = []
    for i in range(n):
        eng = engine.Engine(mod)
        lv = eng.run('z_ext_name' if scope == 'ext' else 'z_bas_name', [i, 0, 0, 0])
        names.append(lv[0].obs[0][1].decode())
    return names


def registry_sizes(kc):
    mod = loader.Module(kc.bc)
    eng = engine.Engine(mod)
    lv = eng.run('z_sizes', [0, 0, 0, 0])
    d = dict(lv[0].obs)
    return d['ext'], d['bas']


def build_oracles(kc, scopes):
    info = {}
    for scope in scopes:
        db = 'zonedbx' if scope == 'ext' else 'zonedb'
        base = os.path.join(build.REPO, 'src', 'ace_time', db)
        o, inf = zicoracle.build(os.path.join(base, 'zone_infos.cpp'), os.path.join(base, 'zone_policies.cpp'),
                                 kc.wd, db)
        ORACLES[scope] = o
        info[scope] = inf
    return info


def replay_query(kc, scope, index, t):
    """Native run of the query harness at the concrete instant t -> (off minutes, delta minutes, abbrev)."""
    binp = kc.native(False)
    rc, lines, err = build.run_native(binp, ENTRY[scope], [index, t, t + 1, 0], [t & 0xffffffff])
    obs = common.parse_obs(lines)
    return rc, obs, err


def judge_zone_results(kc, res, scope):
    """sat -> replay natively against the oracle; defects -> replay on the sanitizer build."""
    nq = 0
    for r in res:
        if r['error']:
            kc.inconclusive.append('%s: %s' % (r['name'], r['error']))
            continue
        if r['unknown']:
            kc.inconclusive.append('%s: %d solver queries returned unknown' % (r['name'], r['unknown']))
        for v in r.get('validate', []):
            rc, obs, err = replay_query(kc, scope, r['index'], v['t'])
            got = (obs.get('off'), obs.get('delta'), obs.get('abbrev'))
            if rc == 0 and got == (v['off'], v['delta'], v['abbrev']):
                kc.validated = getattr(kc, 'validated', 0) + 1
            else:
                kc.inconclusive.append('%s: engine and native build disagree at t=%d: engine %s, native %s' % (
                    r['name'], v['t'], (v['off'], v['delta'], v['abbrev']), got))
        for (year, n) in r.get('dropped_transitions', []):
            kc._record('dropped-transition:%s:%d' % (r['zone'], year),
                       'basic zone %s year %d: addTransition called with the 5-entry cache full (transition silently dropped)' % (
                           r['zone'], year), True, {'zone': r['zone'], 'year': year})
        for d in r['defects']:
            t = None
            for (n, v, b) in d.get('model', []):
                if n == 't':
                    t = v - (1 << 32) if v >> 31 else v
            what = '%s: %s in %s zone %s (year %s) at t=%s' % (d['kind'], d['msg'], scope, r['zone'], d.get('year'), t)
            key = 'zone-query:%s:%s' % (d['kind'], common.site_key(d['where']))
            confirmed = False
            if t is not None:
                binp = kc.native(True)
                rc, lines, err = build.run_native(binp, ENTRY[scope], [r['index'], t, t + 1, 0],
                                                        [t & 0xffffffff])
                confirmed = rc not in (0, 3, 4)
            kc._record(key + ':' + r['zone'], what, confirmed, {'zone': r['zone'], 'defect': d, 't': t})
        for s in r['sat']:
            if s['kind'] == 'coverage-gap':
                kc.inconclusive.append('%s: engine path coverage gap in year %s (%s)' % (r['name'], s['year'], s['result']))
                continue
            if s['kind'] == 'relational':
                t = s['t']
                rc1, ob, e1 = replay_query(kc, 'bas', r['index'], t)
                rc2, ox, e2 = replay_query(kc, 'ext', r['ext_index'], t)
                gb = (ob.get('off'), ob.get('delta'), ob.get('abbrev'))
                gx = (ox.get('off'), ox.get('delta'), ox.get('abbrev'))
                what = 'zone %s at epoch second %d: basic processor %s, extended processor %s' % (r['zone'], t, gb, gx)
                kc._record('basic-vs-extended:%s:%d' % (r['zone'], s['year']), what, rc1 == 0 and rc2 == 0 and gb != gx,
                           {'zone': r['zone'], 't': t, 'basic': gb, 'extended': gx})
                continue
            if s['kind'] != 'oracle':
                kc.inconclusive.append('%s: obligation %s (%s) satisfiable at t=%s' % (r['name'], s['kind'], s.get('tag'), s['t']))
                continue
            t = s['t']
            rc, obs, err = replay_query(kc, scope, r['index'], t)
            exp = ORACLES[scope][r['zone']].at(t)
            got = (obs.get('off'), obs.get('delta'), obs.get('abbrev'))
            differs = rc == 0 and (got[0] is None or got[0] * 60 != exp[0] or (got[1] != 0) != bool(exp[1])
                                   or got[2] != exp[2])
            what = ('%s zone %s at epoch second %d: AceTime (offset min, delta min, abbrev)=%s, zic (utoff s, isdst, '
                    'abbrev)=%s' % (scope, r['zone'], t, got, exp))
            kc._record('zone-differs:%s:%s:%d' % (scope, r['zone'], s['year']), what, differs,
                       {'zone': r['zone'], 'index': r['index'], 't': t, 'acetime': got, 'zic': exp,
                        'entry': ENTRY[scope], 'args': [r['index'], t, t + 1, 0], 'nondet': [['t', t & 0xffffffff, 32]]})
            nq += 1
    return nq


def judge_lemmas(kc, lem):
    for r in lem:
        if r['error']:
            kc.inconclusive.append('%s: %s' % (r['name'], r['error']))
        elif r['status'] != 'unsat':
            kc.inconclusive.append('%s: year-class lemma not discharged (%s, t=%s); the year contract used by the zone '
                                   'queries is not justified' % (r['name'], r['status'], r.get('model_t')))


def select_zones(names, tier, seed, quick_count):
    if tier == 'thorough' or quick_count >= len(names):
        return list(range(len(names)))
    import random
    rnd = random.Random(seed)
    idx = list(range(len(names)))
    rnd.shuffle(idx)
    return sorted(idx[:quick_count])


def zone_main(PROP, SCOPE, YEARS=tuple(range(2000, 2050))):
    YEARS = list(YEARS)
    a = common.parse_args(PROP)
    kc = common.KernelCheck(a, ['h_zone.cpp'], with_zonedb=True, with_zonedbx=True, level='model_checking')
    kc.build()
    info = build_oracles(kc, [SCOPE])
    n_ext, n_bas = registry_sizes(kc)
    names = registry_names(kc, SCOPE, n_ext if SCOPE == 'ext' else n_bas)
    ext_index = {}
    if SCOPE == 'bas':
        build_oracles(kc, ['ext'])
        xnames = registry_names(kc, 'ext', n_ext)
        ext_index = dict((n, i) for i, n in enumerate(xnames))
    missing = [n for n in names if n not in ORACLES[SCOPE]]
    if missing:
        kc.inconclusive.append('registry zones without recorded Zone lines: %s' % missing[:5])
    sel = [i for i in select_zones(names, a.tier, a.seed, len(names)) if names[i] in ORACLES[SCOPE]]
    items = [dict(name='%s/%s' % (SCOPE, names[i]), scope=SCOPE, index=i, zone=names[i], years=YEARS,
                  ext_index=ext_index.get(names[i])) for i in sel]
    lem = kc.run_items([dict(name='year_lemma/%d' % y, year=y) for y in YEARS], jobs=16, fn=run_year_lemma)
    kc.results = []
    judge_lemmas(kc, lem)
    res = kc.run_items(items, jobs=16, fn=run_zone_item)
    kc.results = []
    judge_zone_results(kc, res, SCOPE)
    cov = zone_coverage(kc, res, lem, info, names, SCOPE, YEARS)
    if SCOPE == 'bas':
        shared = [r for r in res if r.get('relational_queries')]
        cov['shared_zones_compared_with_extended'] = len(shared)
        cov['relational_queries'] = sum(r['relational_queries'] for r in res)
        cov['zones_only_in_basic'] = [n for n in names if n not in ext_index]
        cov['dropped_transition_watch'] = ('BasicZoneProcessor::addTransition entered with a full 5-entry cache: %d '
                                           'occurrences' % sum(len(r['dropped_transitions']) for r in res))
    kc.finish(cov, ['oracle: zic 2.36 + zdump on the Zone/Rule lines recorded as comments in the %s tables ' % ('zonedbx' if SCOPE == 'ext' else 'zonedb') +
                    '(Anchor rules are not source lines)',
                    '"DST in effect" = zic isdst on one side, getDeltaOffset(t) != 0 on the other',
                    'year contract for LocalDate::forEpochSeconds (lemma L_year) discharged on the real IR in this run '
                    'with the calendar contracts whose obligations are C06'])


def zone_coverage(kc, res, lem, info, names, scope, years):
    funcs = sorted(set(f for r in res for f in r.get('functions', []) if not f.startswith('__verif')))
    q = sum(r['queries'] for r in res)
    samples = []
    for r in res[:3]:
        samples.extend(r['samples'][:1])
    return {
        'states': max(1, sum(r['leaves'] for r in res)),
        'transitions': max(1, sum(r['steps'] for r in res)),
        'traces_validated_against_impl': getattr(kc, 'validated', 0),
        'samples': samples or [{'note': 'none'}],
        'evaluations': q,
        'distinct_nontrivial': q,
        'rule': ('one query = (leaf path condition over the symbolic instant t) AND (t in one zic segment of the year) AND '
                 '(offset/DST flag/abbreviation differ); every (zone, year, leaf, segment) combination is distinct; plus one '
                 'coverage query per (zone, year range) showing the leaves cover the whole range'),
        'zones_checked': len(res), 'zones_in_registry': len(names), 'years': [years[0], years[-1]],
        'instants_per_zone': cal.epoch_seconds(years[-1] + 1) - cal.epoch_seconds(years[0]),
        'leaves': sum(r['leaves'] for r in res), 'queries_unsat': sum(r['unsat'] for r in res),
        'queries_sat': sum(len(r['sat']) for r in res), 'queries_unknown': sum(r['unknown'] for r in res),
        'coverage_guard_queries': sum(r['cover_checks'] for r in res),
        'solver_time_s': round(sum(r['solver_time'] for r in res), 1),
        'ir_steps': sum(r['steps'] for r in res),
        'year_lemmas': {'count': len(lem), 'discharged': sum(1 for r in lem if r['status'] == 'unsat'),
                        'wall_s': round(sum(r['wall'] for r in lem), 1)},
        'oracle': info,
        'functions_encoded': funcs,
        'ir_flags': ' '.join(build.IR_FLAGS),
        'bounds': {'t': 'every epoch second of %d-01-01 .. %d-12-31 UTC, symbolic' % (years[0], years[-1]),
                   'case_split': 'zone (concrete registry index) x UTC year of t (x Jan-1/rest for basic)',
                   'loop_unwinding': 300},
        'outside_bounds': ['instants outside 2000..2049', 'AVR/32-bit data models'],
        'exhaustive': False,
    }


