// /verif shim: the subset of AceCommon used by AceTime, written from
// AceCommon's documented behaviour (trusted base).
#ifndef VERIF_SHIM_ACECOMMON_H
#define VERIF_SHIM_ACECOMMON_H
#include "Arduino.h"
namespace ace_common {

inline void printPad2To(Print& printer, uint16_t val, char padChar = ' ') {
  if (val < 10) printer.print(padChar);
  printer.print(val);
}

template <typename T>
void incrementMod(T& d, T m) {
  d++;
  if (d >= m) d = 0;
}

template <typename T>
void incrementModOffset(T& d, T m, T offset) {
  d -= offset;
  d++;
  if (d >= m) d = 0;
  d += offset;
}

inline int strcmp_PP(const char* a, const char* b) {
  if (a == b) return 0;
  if (a == nullptr) return -1;
  if (b == nullptr) return 1;
  while (true) {
    uint8_t ca = pgm_read_byte(a);
    uint8_t cb = pgm_read_byte(b);
    if (ca != cb) return (int) ca - (int) cb;
    if (ca == '\0') return 0;
    a++;
    b++;
  }
}

class TimingStats {
  public:
    TimingStats() { reset(); }
    void reset() { mMin = UINT16_MAX; mMax = 0; mSum = 0; mCount = 0; mCounter = 0; mExpDecayAvg = 0; }
    uint16_t getMax() const { return mMax; }
    uint16_t getMin() const { return mMin; }
    uint16_t getAvg() const { return (mCount > 0) ? mSum / mCount : 0; }
    uint16_t getExpDecayAvg() const { return mExpDecayAvg; }
    uint16_t getCount() const { return mCount; }
    uint16_t getCounter() const { return mCounter; }
    void update(uint16_t duration) {
      mCount++; mCounter++; mSum += duration;
      if (duration < mMin) mMin = duration;
      if (duration > mMax) mMax = duration;
      mExpDecayAvg = (mExpDecayAvg + duration) / 2;
    }
  private:
    uint16_t mExpDecayAvg; uint16_t mMin; uint16_t mMax; uint32_t mSum;
    uint16_t mCount; uint16_t mCounter;
};

}
#endif
