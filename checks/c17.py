#!/usr/bin/env python3
"""C17 — TimePeriod, TimeOffset and mutation helpers keep stated ranges and inverses (kernel lemmas on the IR)."""
import sys
import os
sys.path.insert(0, os.path.dirname(os.path.abspath(__file__)))
import common  # noqa: E402

RULE = ('one obligation = one (path condition AND negated assertion / UB trap) SMT query over the fully symbolic '
        'arguments of one harness entry; distinct = distinct (entry, path, assertion)')


def items(a, thorough):
    to = 600 if thorough else 120
    names = ['c17_period_seconds', 'c17_period_compare', 'c17_period_fields', 'c17_period_increments',
             'c17_offset_hour_minute', 'c17_offset_minutes', 'c17_offset_increment15', 'c17_offset_cycle',
             'c17_zdt_increments']
    return [dict(name=n, entry=n, args=[0, 0, 0, 0], timeout=to, loop_limit=200, diff=thorough and n != 'c17_offset_cycle')
            for n in names]


def bounds(a, thorough):
    return {'TimePeriod seconds': '[-921599, 921599] (both operands for compareTo)', 'TimePeriod fields': 'all bytes, sign +-1',
            'TimeOffset hour/minute': 'all sign-consistent int8 pairs with |minute|<60', 'TimeOffset minutes': 'all int16',
            'increment15Minutes': 'all offsets in [-960,960]; orbit of the 15-minute grid unrolled 129 steps',
            'ZonedDateTime field helpers': 'all byte values of every field', 'loop_unwinding': 200}


if __name__ == '__main__':
    common.simple_kernel_main(
        'C17', ['h_c17.cpp'], items, RULE, bounds,
        outside=['TimePeriod seconds beyond +-921599 (hour does not fit a byte; outside the statement)',
                 'incrementMod/incrementModOffset come from the AceCommon shim (documented behaviour)'],
        jobs=9)
