// C20 — native-only dumper: every zone of the compiled basic (a0 == 0) or extended (a0 == 1) registry, decoded through
// the library's own brokers into scope-independent values (minutes, suffix bits, years, letter texts).
#include <stdio.h>
#include <AceTime.h>
#include "verif.h"
using namespace ace_time;

template <typename RB, typename IB, typename INFO>
static void dump(const INFO* const* registry, uint16_t n) {
  char buf[400];
  RB reg(registry);
  for (uint16_t z = 0; z < n; z++) {
    IB info(reg.zoneInfo(z));
    snprintf(buf, sizeof(buf), "%s startYear=%d untilYear=%d numEras=%d", info.name(), info.startYear(), info.untilYear(),
             info.numEras());
    __verif_observe_str("zone", buf);
    for (uint8_t i = 0; i < info.numEras(); i++) {
      auto era = info.era(i);
      auto pol = era.zonePolicy();
      snprintf(buf, sizeof(buf), "%s era=%d off=%d delta=%d fmt=%s until=%d-%d-%d %d suffix=%d policyRules=%d policyLetters=%d",
               info.name(), i, era.offsetMinutes(), era.deltaMinutes(), era.format(), era.untilYearTiny(), era.untilMonth(),
               era.untilDay(), era.untilTimeMinutes(), era.untilTimeSuffix(), pol.isNull() ? -1 : pol.numRules(),
               pol.isNull() ? -1 : pol.numLetters());
      __verif_observe_str("era", buf);
      if (pol.isNull()) continue;
      for (uint8_t r = 0; r < pol.numRules(); r++) {
        auto rule = pol.rule(r);
        char letter[40];
        uint8_t l = rule.letter();
        if (l >= 32) {
          snprintf(letter, sizeof(letter), "%c", l);
        } else if (l < pol.numLetters()) {
          snprintf(letter, sizeof(letter), "%s", pol.letter(l));
        } else {
          snprintf(letter, sizeof(letter), "<bad letter index %d>", l);
        }
        snprintf(buf, sizeof(buf), "%s era=%d rule=%d from=%d to=%d in=%d dow=%d dom=%d at=%d suffix=%d delta=%d letter=%s",
                 info.name(), i, r, rule.fromYearTiny(), rule.toYearTiny(), rule.inMonth(), rule.onDayOfWeek(),
                 rule.onDayOfMonth(), rule.atTimeMinutes(), rule.atTimeSuffix(), rule.deltaMinutes(), letter);
        __verif_observe_str("rule", buf);
      }
    }
  }
}

ENTRY(c20_dump) {
  if (a0 == 0) {
    dump<basic::ZoneRegistryBroker, basic::ZoneInfoBroker, basic::ZoneInfo>(zonedb::kZoneRegistry, zonedb::kZoneRegistrySize);
  } else {
    dump<extended::ZoneRegistryBroker, extended::ZoneInfoBroker, extended::ZoneInfo>(zonedbx::kZoneRegistry,
                                                                                      zonedbx::kZoneRegistrySize);
  }
}
