// C12 — C++ decoders (brokers) on ZoneEra / ZoneRule objects whose encoded bytes are symbolic.
#include <AceTime.h>
#include "verif.h"
using namespace ace_time;

#define BYTES() \
  int8_t b0 = __verif_nondet_i8("f0"), b1 = __verif_nondet_i8("f1"), b2 = __verif_nondet_i8("f2"); \
  uint8_t b3 = __verif_nondet_u8("f3"), b4 = __verif_nondet_u8("f4"), b5 = __verif_nondet_u8("f5"), b6 = __verif_nondet_u8("f6"); \
  int8_t b7 = __verif_nondet_i8("f7"); uint8_t b8 = __verif_nondet_u8("f8");

// era fields: f0 offsetCode, f1 deltaCode, f2 untilYearTiny, f3 untilMonth, f4 untilDay, f5 untilTimeCode, f6 untilTimeModifier
template <typename ERA, typename BROKER>
static void era() {
  BYTES()
  (void) b7; (void) b8;
  ERA e = {nullptr, nullptr, b0, b1, b2, b3, b4, b5, b6};
  BROKER br(&e);
  __verif_observe("offsetMinutes", br.offsetMinutes());
  __verif_observe("deltaMinutes", br.deltaMinutes());
  __verif_observe("untilYearTiny", br.untilYearTiny());
  __verif_observe("untilMonth", br.untilMonth());
  __verif_observe("untilDay", br.untilDay());
  __verif_observe("untilTimeMinutes", br.untilTimeMinutes());
  __verif_observe("untilTimeSuffix", br.untilTimeSuffix());
}
// rule fields: f0 fromYearTiny, f1 toYearTiny, f2(as u8) inMonth, f3 onDayOfWeek, f4(as i8) onDayOfMonth, f5 atTimeCode,
//              f6 atTimeModifier, f7 deltaCode, f8 letter
template <typename RULE, typename BROKER>
static void rule() {
  BYTES()
  RULE r = {b0, b1, (uint8_t) b2, b3, (int8_t) b4, b5, b6, b7, b8};
  BROKER br(&r);
  __verif_observe("fromYearTiny", br.fromYearTiny());
  __verif_observe("toYearTiny", br.toYearTiny());
  __verif_observe("inMonth", br.inMonth());
  __verif_observe("onDayOfWeek", br.onDayOfWeek());
  __verif_observe("onDayOfMonth", br.onDayOfMonth());
  __verif_observe("atTimeMinutes", br.atTimeMinutes());
  __verif_observe("atTimeSuffix", br.atTimeSuffix());
  __verif_observe("deltaMinutes", br.deltaMinutes());
  __verif_observe("letter", br.letter());
}
ENTRY(c12_era_extended) { era<extended::ZoneEra, extended::ZoneEraBroker>(); }
ENTRY(c12_era_basic) { era<basic::ZoneEra, basic::ZoneEraBroker>(); }
ENTRY(c12_rule_extended) { rule<extended::ZoneRule, extended::ZoneRuleBroker>(); }
ENTRY(c12_rule_basic) { rule<basic::ZoneRule, basic::ZoneRuleBroker>(); }
