#!/usr/bin/env python3
"""C03 — the TZ compiler preserves semantics end to end; unsupported zones are reported.

Translation validation per program: run the real tzcompiler pipeline on a TZ source, compile the generated C++ tables
with the library to IR, and decide every emitted zone against zic on the same source text for every instant of
2000..2049 (symbolic t, C01/C02 machinery); account for every Zone/Link name."""
import sys
import os
import time
sys.path.insert(0, os.path.dirname(os.path.abspath(__file__)))
import common  # noqa: E402
import pipeline  # noqa: E402

YEARS = list(range(2000, 2050))


def main():
    a = common.parse_args('C03')
    thorough = a.tier == 'thorough'
    kc = common.KernelCheck(a, ['h_zone.cpp'], with_zonedb=True, with_zonedbx=True, level='translation_validation')
    import random
    import subprocess
    import tempfile
    programs = [('synthetic', pipeline.synthetic_source()), ('reconstructed', pipeline.reconstructed_source())]
    rnd = random.Random(a.seed)
    nmut = 12 if thorough else 3
    mutants = []
    tries = 0
    while len(mutants) < nmut and tries < 100:
        tries += 1
        txt, what = pipeline.mutate_source(pipeline.synthetic_source(), rnd)
        if what == 'unchanged':
            continue
        with tempfile.TemporaryDirectory(dir=kc.wd) as td:
            src = os.path.join(td, 's.txt')
            open(src, 'w').write(txt)
            if subprocess.run(['zic', '-d', os.path.join(td, 'zi'), src], stdout=subprocess.PIPE, stderr=subprocess.STDOUT).returncode != 0:
                continue        # zic itself rejects the variant: not a program
        mutants.append(('mutant%02d' % len(mutants), txt, what))
    programs += [(n, t) for (n, t, w) in mutants]
    # a fixed one-zone program inside the documented feature set whose STDOFF has a minute remainder >= 8 modulo 15: the
    # extended generator's deltaCode does not fit its field (known finding, C12); kept so that the finding is reported by every
    # run and the program is checked normally once the defect is gone
    programs.append(('offgrid8', 'Zone\tTest/OffGrid8\t0:08\t-\t+0008\n'))
    # the real 2025b release shipped in the sandbox (compact tzdata.zi), de-shrunk and with %z rewritten
    zi_info = None
    if os.path.exists('/usr/share/zoneinfo/tzdata.zi'):
        from spec import tzdata_zi
        t25, zi_info = tzdata_zi.deshrink()
        programs.append(('tz2025b', t25))
    reps = []
    for name, text in programs:
        for scope in ('extended', 'basic'):
            if name in ('reconstructed', 'tz2025b'):
                # byte-identical (modulo comments/links) regeneration of the shipped extended tables is decided by C01; the
                # engine run on the regenerated tables is done for a sample (quick) / all zones (thorough)
                reps.append(pipeline.check_program_scope(kc, name, text, scope, YEARS, run_engine=True,
                                                         zone_limit=None if thorough else (24 if name == 'reconstructed' else 12)))
            else:
                reps.append(pipeline.check_program_scope(kc, name, text, scope, YEARS))
    kc.results = []
    q = sum(r['queries'] for r in reps)
    cov = {
        'programs': len(programs), 'disagreements_checked': q,
        'samples': [s for r in reps for s in r['samples']][:4] or [{'note': 'none'}],
        'evaluations': q, 'distinct_nontrivial': q,
        'rule': 'per program x scope: all Zone/Link names accounted for; every emitted zone (minus zones with a truncation note) '
                'x every UTC year x every leaf x every zic segment is one SMT query over the symbolic instant',
        'per_program': [dict((k, v) for k, v in r.items() if k not in ('samples', 'functions')) for r in reps],
        'functions_encoded': sorted(set(f for r in reps for f in r.get('functions', []))),
        'compiler': 'tools/tzcompiler.py (Extractor, Transformer, ArduinoGenerator incl. BufSizeEstimator, ZoneListGenerator, '
                    'TzDbCollector) run as a subprocess of this check on each program',
        'mutant_programs': [{'name': n, 'change': w} for (n, t, w) in mutants],
        'tz2025b': None if zi_info is None else {'zones': zi_info['zones'], 'rules': zi_info['rules'], 'links': zi_info['links'],
                                                 'skipped_by_harness': zi_info['skipped_by_harness']},
        'bounds': {'programs': [n for n, _ in programs], 'instants': 'every epoch second of 2000..2049, symbolic',
                   'zones': 'all emitted zones of the synthetic program; %s emitted zones of the reconstructed 2020d subset' % (
                       'all' if thorough else 'a seed-drawn sample of 24 per scope among the') + '; 2025b: %s emitted zones per scope' % ('all' if thorough else '12 seed-drawn')},
        'outside_bounds': ['"for any source": only the listed programs (the source text is concrete, not symbolic)',
                           '2025b zones whose %z eras use rules with several SAVE values are skipped by the harness (listed), not given to the compiler',
                           'Python-language tables interpreted by ZoneSpecifier (see C04/C20)'],
    }
    kc.finish(cov, ['zic 2.36 compiles the same program text that is given to tzcompiler',
                    'zones with a truncation note (STDOFF/AT/UNTIL truncated to the scope granularity) are excluded from the semantic '
                    'comparison and listed'])


if __name__ == '__main__':
    main()
