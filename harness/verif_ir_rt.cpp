// IR-side definitions that the native runtime (verif_rt.cpp) provides natively.
#include <Arduino.h>
VerifNullSerial Serial;
