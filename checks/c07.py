#!/usr/bin/env python3
"""C07 — local time resolution: identity if the wall time is unique, forward in gaps, valid in overlaps; result normalised.

ZonedDateTime::forComponents on the real IR.  The date is a driver case split (every local date that contains a zic
discontinuity of the zone in 2000..2049 in either offset, its neighbours, and seed-drawn ordinary dates); the time of
day (hour, minute, second) is symbolic, so every wall time of the selected days is covered.  Oracle: occurrences of the
wall time in the zic step function of the recorded lines."""
import sys
import os
import time
import random
import traceback
sys.path.insert(0, os.path.dirname(os.path.abspath(__file__)))
import common  # noqa: E402
import zones  # noqa: E402
from llsym import engine, contracts, build  # noqa: E402
from spec import calendar as cal  # noqa: E402

ENTRY = {'ext': 'z_ext_local', 'bas': 'z_bas_local'}


def classes_for(scope, day):
    y = cal.civil(day)[0]
    cl = []
    for yy in (y - 1, y, y + 1):
        if scope == 'bas':
            for (lo, hi) in zones.year_ranges('bas', yy):
                cl.append((lo, hi, yy))
        else:
            cl.append((cal.epoch_seconds(yy), cal.epoch_seconds(yy + 1), yy))
    return cl


EDGE_DAYS = [cal.days(2000, 1, 1), cal.days(2000, 1, 2), cal.days(2049, 12, 30), cal.days(2049, 12, 31)]


def interesting_days(oracle, rnd, per_zone_random):
    days = set()
    lo, hi = cal.epoch_seconds(2000), cal.epoch_seconds(2050)
    for k in range(1, len(oracle.steps)):
        st = oracle.steps[k][0]
        if not (lo <= st < hi):
            continue
        for off in (oracle.steps[k - 1][1], oracle.steps[k][1]):
            d = (st + off) // 86400
            days.update((d - 1, d, d + 1))
    for _ in range(per_zone_random):
        days.add(rnd.randrange(cal.days(2000, 1, 3), cal.days(2049, 12, 29)))
    return sorted(d for d in days if cal.days(2000, 1, 3) <= d <= cal.days(2049, 12, 29))


def expected_concrete(oracle, LS):
    """(kind, [(offset seconds, epoch seconds)]) for the wall-clock second LS."""
    occ = []
    steps = oracle.steps
    for k, (st, off, dst, ab) in enumerate(steps):
        a = -(1 << 62) if st is None else st
        b = steps[k + 1][0] if k + 1 < len(steps) else (1 << 62)
        if a <= LS - off < b:
            occ.append((off, LS - off))
    if len(occ) == 1:
        return 'unique', occ
    if len(occ) >= 2:
        return 'overlap', occ
    # gap: between segment k (before) and k+1
    for k in range(len(steps) - 1):
        if steps[k + 1][0] + steps[k][1] <= LS < steps[k + 1][0] + steps[k + 1][1]:
            return 'gap', [(steps[k + 1][1], LS - steps[k][1])]
    return 'none', []


def run_local_item(item):
    import z3
    t0 = time.time()
    scope, zi, name = item['scope'], item['index'], item['zone']
    out = {'name': '%s/%s' % (scope, name), 'zone': name, 'scope': scope, 'index': zi, 'days': len(item['days']), 'leaves': 0, 'steps': 0,
           'queries': 0, 'unsat': 0, 'unknown': 0, 'sat': [], 'defects': [], 'error': None, 'functions': [], 'samples': []}
    try:
        mod = common._module()
        oracle = zones.ORACLES[scope][name]
        called = set()
        for day in item['days']:
            y, m, d = cal.civil(day)
            eng = engine.Engine(mod, solver_timeout_ms=20000, loop_limit=300)
            eng.resolve_bools = True
            eng.fresh_tag = '_l'
            eng.intercepts[contracts.LD_FOR_EPOCH_SECONDS] = contracts.classes_contract(classes_for(scope, day))
            eng.intercepts[contracts.LDT_FOR_EPOCH_SECONDS] = contracts.ldt_window_contract(day - 2, 5)
            eng.deadline = eng.ctx.deadline = time.time() + 300
            leaves = eng.run(ENTRY[scope], [zi, y, m, d])
            called |= eng.called
            lo_t, hi_t = (day - 3) * 86400, (day + 4) * 86400
            segs = oracle.segments(lo_t, hi_t)
            for lf in leaves:
                out['steps'] += lf.steps
                if lf.status == 'defect':
                    dd = dict(lf.defect)
                    dd['day'] = [y, m, d]
                    out['defects'].append(dd)
                    continue
                if lf.status != 'ok':
                    continue
                out['leaves'] += 1
                o = dict(lf.obs)
                hh, mi, ss = [t for (_, t, _) in lf.nondet][:3]
                LS = z3.BitVecVal(day * 86400, 32) + z3.ZeroExt(24, hh) * 3600 + z3.ZeroExt(24, mi) * 60 + z3.ZeroExt(24, ss)

                def bv(v, bits):
                    return z3.BitVecVal(v & ((1 << bits) - 1), bits) if isinstance(v, int) else z3.Extract(bits - 1, 0, v)
                same_fields = z3.And(bv(o['yearTiny'], 8) == ((y - 2000) & 0xff), bv(o['month'], 8) == m, bv(o['day'], 8) == d,
                                     bv(o['hour'], 8) == hh, bv(o['minute'], 8) == mi, bv(o['second'], 8) == ss)
                off16 = bv(o['offset'], 16)
                epoch = bv(o['epoch'], 32)
                occ = [z3.And(LS - (of) >= a, LS - (of) < b) for (a, b, of, dst, ab) in segs]

                def offeq(of):
                    return off16 == ((of // 60) & 0xffff) if of % 60 == 0 else z3.BoolVal(False)
                qs = [('never an error value', bv(o['isError'], 8) != 0)]
                own = {}
                for lfo in lf.obligations:
                    tg = '%s:%s#%d' % (lfo[0], lfo[2], len(own))
                    own[tg] = lfo[3]
                    qs.append((tg, lfo[1]))
                for j, sg in enumerate(segs):
                    others = z3.And([z3.Not(occ[k]) for k in range(len(segs)) if k != j]) if len(segs) > 1 else z3.BoolVal(True)
                    qs.append(('unique wall time: fields unchanged, offset of its period',
                               z3.And(occ[j], others, z3.Not(z3.And(same_fields, offeq(sg[2]))))))
                    if j + 1 < len(segs):
                        k = j + 1
                        qs.append(('overlap: fields unchanged, one of the two offsets',
                                   z3.And(occ[j], occ[k], z3.Not(z3.And(same_fields, z3.Or(offeq(sg[2]), offeq(segs[k][2])))))))
                        # gap between j and k: local end of j <= LS < local start of k
                        gap = z3.And(LS >= sg[1] + sg[2], LS < segs[k][0] + segs[k][2], z3.And([z3.Not(c) for c in occ]))
                        qs.append(('gap: moved forward (instant = wall time - offset before the gap), offset after the gap',
                                   z3.And(gap, z3.Not(z3.And(epoch == LS - sg[2], offeq(segs[k][2]))))))
                s = z3.Solver()
                s.set('timeout', 30000)
                s.add(*lf.pc)
                for (tag, neg) in qs:
                    if tag.startswith(('assert:', 'contract-pre:', 'trap:')):
                        s2 = z3.Solver()
                        s2.set('timeout', 30000)
                        s2.add(*own[tag])
                        s2.add(neg)
                        r = str(s2.check())
                        mdl = s2.model() if r == 'sat' else None
                    else:
                        s.push()
                        s.add(neg)
                        r = str(s.check())
                        mdl = s.model() if r == 'sat' else None
                        s.pop()
                    out['queries'] += 1
                    if r == 'unsat':
                        out['unsat'] += 1
                    elif r == 'sat':
                        vals = [mdl.eval(v, model_completion=True).as_long() for v in (hh, mi, ss)]
                        out['sat'].append({'what': tag, 'day': [y, m, d], 'time': vals})
                    else:
                        out['unknown'] += 1
                    if len(out['samples']) < 1 and tag.startswith('unique'):
                        out['samples'].append({'zone': name, 'date': [y, m, d], 'obligation': tag, 'segments': len(segs), 'result': r,
                                               'leaf_offset': common._term_str(o['offset'])})
        out['functions'] = sorted(called)
    except engine.EngineError as e:
        out['error'] = 'engine: %s' % e
    except Exception as e:  # noqa
        out['error'] = 'exception: %s\n%s' % (e, traceback.format_exc())
    out['wall'] = round(time.time() - t0, 2)
    return out


def main():
    a = common.parse_args('C07')
    thorough = a.tier == 'thorough'
    kc = common.KernelCheck(a, ['h_zone.cpp'], with_zonedb=True, with_zonedbx=True)
    kc.build()
    zones.build_oracles(kc, ['ext', 'bas'])
    n_ext, n_bas = zones.registry_sizes(kc)
    xn = zones.registry_names(kc, 'ext', n_ext)
    bn = zones.registry_names(kc, 'bas', n_bas)
    rnd = random.Random(a.seed)
    xs = range(n_ext) if thorough else sorted(rnd.sample(range(n_ext), 24))
    bs = range(n_bas) if thorough else sorted(rnd.sample(range(n_bas), 10))
    if not thorough:
        # stratification: for every calendar month one zone of each database with a discontinuity in that month
        def with_month(scope, names, mo):
            order = list(range(len(names)))
            rnd.shuffle(order)
            for i in order:
                for st in zones.ORACLES[scope][names[i]].starts:
                    if 0 <= st < cal.epoch_seconds(2050) and cal.civil(st // 86400)[1] == mo:
                        return i
            return None
        xs = sorted(set(xs) | set(i for i in (with_month('ext', xn, mo) for mo in range(1, 13)) if i is not None))
        bs = sorted(set(bs) | set(i for i in (with_month('bas', bn, mo) for mo in range(1, 13)) if i is not None))
    items = []
    for scope, names, sel in (('ext', xn, xs), ('bas', bn, bs)):
        for i in sel:
            days = interesting_days(zones.ORACLES[scope][names[i]], rnd, 3)
            cap = 18 if thorough else 16
            if len(days) > cap:
                days = sorted(rnd.sample(days, cap))
            # the edges of the supported years: their wall times need the caches of 1999 / 2050
            days = sorted(set(days) | set(EDGE_DAYS))
            items.append(dict(name='%s/%s' % (scope, names[i]), scope=scope, index=i, zone=names[i], days=days))
    years = sorted(set(range(1999, 2051)))
    lem = kc.run_items([dict(name='year_lemma/%d' % y, year=y) for y in years], jobs=16, fn=zones.run_year_lemma)
    zones.judge_lemmas(kc, lem)
    res = kc.run_items(items, jobs=16, fn=run_local_item)
    kc.results = []
    for r in res:
        if r['error']:
            kc.inconclusive.append('%s: %s' % (r['name'], r['error']))
            continue
        if r['unknown']:
            kc.inconclusive.append('%s: %d queries unknown' % (r['name'], r['unknown']))
        for d in r['defects']:
            kc._record('local:%s:%s:%s' % (d['kind'], common.site_key(d['where']), r['zone']),
                       '%s zone %s, date %s: %s %s' % (r['scope'], r['zone'], d.get('day'), d['kind'], d['msg']), d.get('solver') == 'sat', d)
        for s in r['sat']:
            y, m, d = s['day']
            hh, mi, ss = s['time']
            binp = kc.native(False)
            rc, lines, err = build.run_native(binp, ENTRY[r['scope']], [r['index'], y, m, d], [hh, mi, ss])
            obs = common.parse_obs(lines)
            LS = cal.days(y, m, d) * 86400 + hh * 3600 + mi * 60 + ss
            kind, exp = expected_concrete(zones.ORACLES[r['scope']][r['zone']], LS)
            got_fields = (obs.get('yearTiny', 0) + 2000, obs.get('month'), obs.get('day'), obs.get('hour'), obs.get('minute'), obs.get('second'))
            got_off, got_epoch = obs.get('offset'), obs.get('epoch')
            if 'normalised' in s['what']:
                bad = ('ASSERT-FAILED result is normalised' in lines)
            elif obs.get('isError'):
                bad = True
            elif kind in ('unique', 'overlap'):
                bad = got_fields != (y, m, d, hh, mi, ss) or got_off * 60 not in [e[0] for e in exp]
            elif kind == 'gap':
                bad = (got_off * 60, got_epoch) != exp[0]
            else:
                bad = False
            kc._record('local:%s:%s:%s' % (r['scope'], r['zone'], s['what'].split(':')[0]),
                       '%s zone %s, wall time %04d-%02d-%02dT%02d:%02d:%02d (%s): result %s offset %s min epoch %s; zic occurrences %s' % (
                           r['scope'], r['zone'], y, m, d, hh, mi, ss, kind, got_fields, got_off, got_epoch, exp), rc == 0 and bad,
                       {'zone': r['zone'], 'date': [y, m, d], 'time': [hh, mi, ss], 'observed': obs, 'expected': [kind, exp]})
    q = sum(r['queries'] for r in res)
    cov = {
        'states': max(1, sum(r['leaves'] for r in res)), 'transitions': max(1, sum(r['steps'] for r in res)),
        'traces_validated_against_impl': 0, 'samples': [s for r in res[:3] for s in r['samples']] or [{'note': 'none'}],
        'evaluations': q, 'distinct_nontrivial': q,
        'rule': 'one work item = one zone, a list of concrete local dates; per date the time of day (hour, minute, second) is symbolic; per '
                'leaf and zic segment: unique => fields unchanged and that offset; two occurrences => unchanged and one of both offsets; none => '
                'instant = wall time - offset before the gap and the offset after it; never an error; result normalised (C++ assertion)',
        'zones': {'extended': len([r for r in res if r['scope'] == 'ext']), 'basic': len([r for r in res if r['scope'] == 'bas'])},
        'dates': sum(r['days'] for r in res), 'leaves': sum(r['leaves'] for r in res), 'queries_unsat': sum(r['unsat'] for r in res),
        'functions_encoded': sorted(set(f for r in res for f in r.get('functions', [])))[:80],
        'bounds': {'dates': 'every local date containing a zic discontinuity of the zone in 2000..2049 (in the offset before or after it), '
                            'the days next to it, and seed-drawn ordinary dates; capped at 16 (quick) / 18 (thorough) seed-drawn dates per zone, plus always 2000-01-01, 2000-01-02, 2049-12-30, 2049-12-31',
                   'time_of_day': 'all 86400 seconds, symbolic', 'zones': 'quick: seed-drawn 24 extended + 10 basic plus, per database, one zone with a discontinuity in each calendar month; thorough: all', 'history': 'the processor is primed with an instant 300 days earlier before the resolution'},
        'outside_bounds': ['dates not selected (far from any transition, apart from the drawn ones)', 'wall times in 1999 / 2050'],
    }
    kc.finish(cov, ['contracts: LocalDate::forEpochSeconds year classes (lemma L_year, discharged in this run); LocalDateTime::forEpochSeconds '
                    'on a 5-day window around the date (instance of the C06 lemma)', 'oracle: zic/zdump on the recorded lines'])


if __name__ == '__main__':
    main()
