// /verif shim: minimal Arduino Print (trusted base of the verification harness).
// Semantics follow the Arduino core's Print: print(char) writes one byte,
// print(const char*) writes the bytes of the string, print(integer) writes the
// decimal representation with a leading '-' for negative values.
#ifndef VERIF_SHIM_PRINT_H
#define VERIF_SHIM_PRINT_H
#include <stdint.h>
#include <stddef.h>
#include <string.h>

class __FlashStringHelper;
#define DEC 10

class Print {
  public:
    virtual ~Print() {}
    virtual size_t write(uint8_t c) = 0;
    virtual size_t write(const uint8_t* buf, size_t n) {
      size_t k = 0;
      while (n--) { k += write(*buf++); }
      return k;
    }
    size_t write(const char* s) {
      if (s == nullptr) return 0;
      return write((const uint8_t*) s, strlen(s));
    }
    size_t print(const __FlashStringHelper* s) { return write((const char*) s); }
    size_t print(const char* s) { return write(s); }
    size_t print(char c) { return write((uint8_t) c); }
    size_t print(unsigned char v, int = DEC) { return printNumber((unsigned long) v); }
    size_t print(int v, int = DEC) { return print((long) v); }
    size_t print(unsigned int v, int = DEC) { return printNumber((unsigned long) v); }
    size_t print(long v, int = DEC) {
      if (v < 0) {
        size_t n = write((uint8_t) '-');
        return n + printNumber(0UL - (unsigned long) v);
      }
      return printNumber((unsigned long) v);
    }
    size_t print(unsigned long v, int = DEC) { return printNumber(v); }
    size_t println() { return write((uint8_t) '\r') + write((uint8_t) '\n'); }
    template <typename T> size_t println(T v) { size_t n = print(v); return n + println(); }
  private:
    size_t printNumber(unsigned long n) {
      char buf[8 * sizeof(long) + 1];
      char* str = &buf[sizeof(buf) - 1];
      *str = '\0';
      do {
        char c = (char) (n % 10);
        n /= 10;
        *--str = (char) (c + '0');
      } while (n);
      return write(str);
    }
};
#endif
