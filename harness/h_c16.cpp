// C16 — TimeZone is a faithful value: equality, manual offsets, save/restore through a zone manager.
#include <AceTime.h>
#include "verif.h"
using namespace ace_time;

ENTRY(c16_manual) {
  BasicZoneManager<1> mgr(zonedb::kZoneRegistrySize, zonedb::kZoneRegistry);
  int16_t sd = __verif_nondet_i16("std"), ds = __verif_nondet_i16("dst");
  int16_t sd2 = __verif_nondet_i16("std2"), ds2 = __verif_nondet_i16("dst2");
  int32_t t = __verif_nondet_i32("t");
  TimeZone tz = TimeZone::forTimeOffset(TimeOffset::forMinutes(sd), TimeOffset::forMinutes(ds));
  __verif_assert(tz.getType() == TimeZone::kTypeManual && !tz.isError(), "manual kind");
  TimeZoneData d = tz.toTimeZoneData();
  __verif_assert(d.type == TimeZoneData::kTypeManual && d.stdOffsetMinutes == sd && d.dstOffsetMinutes == ds, "saved form keeps std/dst");
  TimeZone r = mgr.createForTimeZoneData(d);
  __verif_assert(r == tz, "restored manual zone equals the original");
  __verif_assert(r.getStdOffset().toMinutes() == sd && r.getDstOffset().toMinutes() == ds, "restored std/dst");
  __verif_assert(r.toTimeZoneData() == d, "restored zone saves to the same data");
  // offset is always standard plus DST (when the sum is a representable, non-sentinel offset)
  int32_t sum = (int32_t) sd + ds;
  if (sum > -32768 && sum <= 32767) {
    __verif_assert(tz.getUtcOffset(t).toMinutes() == sum, "manual offset == std + dst at every instant");
    __verif_assert(tz.getDeltaOffset(t).toMinutes() == ds, "manual delta == dst at every instant");
  }
  __verif_assert(tz.isUtc() == (sd == 0 && ds == 0), "isUtc");
  TimeZone other = TimeZone::forTimeOffset(TimeOffset::forMinutes(sd2), TimeOffset::forMinutes(ds2));
  __verif_assert((tz == other) == (sd == sd2 && ds == ds2), "manual zones equal iff same offsets");
  __verif_assert((tz != other) == !(tz == other), "operator!= is the negation");
  __verif_assert((TimeZoneData(sd, ds) == TimeZoneData(sd2, ds2)) == (sd == sd2 && ds == ds2), "TimeZoneData equality (manual)");
  __verif_assert(!(tz == TimeZone::forError()) && !(TimeZone::forError() == tz), "manual != error");
}

ENTRY(c16_error_and_ids) {
  BasicZoneManager<1> mgr(zonedb::kZoneRegistrySize, zonedb::kZoneRegistry);
  TimeZone e = TimeZone::forError();
  TimeZoneData d = e.toTimeZoneData();
  __verif_assert(d.type == TimeZoneData::kTypeError, "error zone saves as error");
  __verif_assert(mgr.createForTimeZoneData(d).isError(), "error data restores to the error zone");
  __verif_assert(e == TimeZone::forError(), "error zones are equal");
  __verif_assert(TimeZoneData() == TimeZoneData(), "error data equal");
  uint32_t id1 = __verif_nondet_u32("id1"), id2 = __verif_nondet_u32("id2");
  __verif_assert((TimeZoneData(id1) == TimeZoneData(id2)) == (id1 == id2), "TimeZoneData equality (zone id)");
  __verif_assert(!(TimeZoneData(id1) == TimeZoneData()), "zone-id data != error data");
  int16_t sd = __verif_nondet_i16("std"), ds = __verif_nondet_i16("dst");
  __verif_assert(!(TimeZoneData(id1) == TimeZoneData(sd, ds)), "zone-id data != manual data");
}

// a zone id that is not in the registry restores to the error zone (id symbolic, assumed different from every entry)
ENTRY(c16_absent_id_basic) {
  BasicZoneManager<1> mgr(zonedb::kZoneRegistrySize, zonedb::kZoneRegistry);
  uint32_t id = __verif_nondet_u32("id");
  for (uint16_t i = 0; i < zonedb::kZoneRegistrySize; i++) {
    __verif_assume(id != basic::ZoneInfoBroker(zonedb::kZoneRegistry[i]).zoneId());
  }
  TimeZone r = mgr.createForTimeZoneData(TimeZoneData(id));
  __verif_assert(r.isError(), "absent zone id restores to the error zone");
  __verif_assert(mgr.createForZoneId(id).isError(), "absent zone id -> error zone");
  __verif_assert(mgr.indexForZoneId(id) == ZoneManager::kInvalidIndex, "absent zone id -> invalid index");
}
ENTRY(c16_absent_id_extended) {
  ExtendedZoneManager<1> mgr(zonedbx::kZoneRegistrySize, zonedbx::kZoneRegistry);
  uint32_t id = __verif_nondet_u32("id");
  for (uint16_t i = 0; i < zonedbx::kZoneRegistrySize; i++) {
    __verif_assume(id != extended::ZoneInfoBroker(zonedbx::kZoneRegistry[i]).zoneId());
  }
  TimeZone r = mgr.createForTimeZoneData(TimeZoneData(id));
  __verif_assert(r.isError(), "absent zone id restores to the error zone");
}

// restore histories on ONE manager: hit (zone a0), absent id, the same absent id again, hit (zone a1), a second absent id,
// hit (zone a0) - every answer must be what a fresh manager gives (ids symbolic, assumed different from every entry)
template <typename MGR, typename BROKER, typename INFO>
static void restoreHistory(MGR& mgr, const INFO* const* registry, uint16_t n, long z0, long z1) {
  uint32_t id = __verif_nondet_u32("id"), idB = __verif_nondet_u32("idB");
  for (uint16_t i = 0; i < n; i++) {
    uint32_t zid = BROKER(registry[i]).zoneId();
    __verif_assume(id != zid && idB != zid);
  }
  uint32_t id0 = BROKER(registry[z0]).zoneId(), id1 = BROKER(registry[z1]).zoneId();
  TimeZone h0 = mgr.createForTimeZoneData(TimeZoneData(id0));
  __verif_assert(!h0.isError() && h0 == mgr.createForZoneIndex((uint16_t) z0) && h0.getZoneId() == id0, "history: first hit");
  __verif_assert(mgr.createForTimeZoneData(TimeZoneData(id)).isError(), "history: absent id after a hit -> error zone");
  __verif_assert(mgr.createForTimeZoneData(TimeZoneData(id)).isError(), "history: the same absent id again -> error zone");
  __verif_assert(mgr.createForZoneId(id).isError(), "history: createForZoneId(absent) -> error zone");
  __verif_assert(mgr.indexForZoneId(id) == ZoneManager::kInvalidIndex, "history: indexForZoneId(absent) -> invalid index");
  TimeZone h1 = mgr.createForTimeZoneData(TimeZoneData(id1));
  __verif_assert(!h1.isError() && h1 == mgr.createForZoneIndex((uint16_t) z1) && h1.getZoneId() == id1, "history: hit after misses");
  __verif_assert(mgr.createForTimeZoneData(TimeZoneData(idB)).isError(), "history: second absent id -> error zone");
  __verif_assert(mgr.createForTimeZoneData(TimeZoneData(id)).isError(), "history: first absent id once more -> error zone");
  TimeZone h2 = mgr.createForZoneId(id0);
  __verif_assert(!h2.isError() && h2 == h0 && h2.getZoneId() == id0, "history: first zone again");
  __verif_assert(mgr.createForTimeZoneData(TimeZoneData()).isError(), "history: error data -> error zone");
  __verif_assert(mgr.createForZoneId(id0) == h0, "history: hit after error data");
}
ENTRY(c16_history_basic) {
  BasicZoneManager<1> mgr(zonedb::kZoneRegistrySize, zonedb::kZoneRegistry);
  restoreHistory<BasicZoneManager<1>, basic::ZoneInfoBroker, basic::ZoneInfo>(mgr, zonedb::kZoneRegistry, zonedb::kZoneRegistrySize, a0, a1);
}
ENTRY(c16_history_extended) {
  ExtendedZoneManager<1> mgr(zonedbx::kZoneRegistrySize, zonedbx::kZoneRegistry);
  restoreHistory<ExtendedZoneManager<1>, extended::ZoneInfoBroker, extended::ZoneInfo>(mgr, zonedbx::kZoneRegistry, zonedbx::kZoneRegistrySize, a0, a1);
}

// registry zone a0 of the basic database, other zone a1, probe instant a2
ENTRY(c16_managed_basic) {
  BasicZoneManager<2> mgr(zonedb::kZoneRegistrySize, zonedb::kZoneRegistry);
  TimeZone tz = mgr.createForZoneIndex((uint16_t) a0);
  __verif_assert(!tz.isError() && tz.getType() == TimeZone::kTypeBasicManaged, "managed basic kind");
  TimeZoneData d = tz.toTimeZoneData();
  uint32_t id = basic::ZoneInfoBroker(zonedb::kZoneRegistry[a0]).zoneId();
  __verif_assert(d.type == TimeZoneData::kTypeZoneId && d.zoneId == id, "saved form is the zone id");
  TimeZone r = mgr.createForTimeZoneData(d);
  __verif_assert(r == tz, "restored zone equals the one created directly by the manager");
  __verif_assert(r.getZoneId() == id, "restored zone id");
  __verif_assert(r.getUtcOffset((acetime_t) a2).toMinutes() == tz.getUtcOffset((acetime_t) a2).toMinutes(), "same answers");
  TimeZone o = mgr.createForZoneIndex((uint16_t) a1);
  __verif_assert((o == tz) == (a0 == a1), "zones equal iff same zone");
  // a directly bound (non-managed) zone of the same ZoneInfo saves to the same data and restores to the managed zone
  BasicZoneProcessor proc;
  TimeZone direct = TimeZone::forZoneInfo(zonedb::kZoneRegistry[a0], &proc);
  __verif_assert(direct.toTimeZoneData() == d, "direct zone saves to the same data");
  __verif_assert(mgr.createForTimeZoneData(direct.toTimeZoneData()) == tz, "and restores to the manager's zone");
  __verif_assert(!(direct == tz), "different kinds are not equal");
  __verif_assert(!(tz == TimeZone::forError()) && !(tz == TimeZone::forUtc()), "managed != error/manual");
}
ENTRY(c16_managed_extended) {
  ExtendedZoneManager<2> mgr(zonedbx::kZoneRegistrySize, zonedbx::kZoneRegistry);
  TimeZone tz = mgr.createForZoneIndex((uint16_t) a0);
  __verif_assert(!tz.isError() && tz.getType() == TimeZone::kTypeExtendedManaged, "managed extended kind");
  TimeZoneData d = tz.toTimeZoneData();
  uint32_t id = extended::ZoneInfoBroker(zonedbx::kZoneRegistry[a0]).zoneId();
  __verif_assert(d.type == TimeZoneData::kTypeZoneId && d.zoneId == id, "saved form is the zone id");
  TimeZone r = mgr.createForTimeZoneData(d);
  __verif_assert(r == tz, "restored zone equals the one created directly by the manager");
  __verif_assert(r.getUtcOffset((acetime_t) a2).toMinutes() == tz.getUtcOffset((acetime_t) a2).toMinutes(), "same answers");
  TimeZone o = mgr.createForZoneIndex((uint16_t) a1);
  __verif_assert((o == tz) == (a0 == a1), "zones equal iff same zone");
  ExtendedZoneProcessor proc;
  TimeZone direct = TimeZone::forZoneInfo(zonedbx::kZoneRegistry[a0], &proc);
  __verif_assert(direct.toTimeZoneData() == d, "direct zone saves to the same data");
  __verif_assert(mgr.createForTimeZoneData(direct.toTimeZoneData()) == tz, "and restores to the manager's zone");
}
