// Zone-level query harnesses (C01, C02, C05, C07, C08, C09 share them).
#include <AceTime.h>
#include "verif.h"
using namespace ace_time;

// private state is reached through the friend test-class names the library already declares
class BasicZoneProcessorTest_init {
  public:
    static long numTransitionsOffset() {
      BasicZoneProcessor p;
      return (long) ((const char*) &p.mNumTransitions - (const char*) &p);
    }
};

ENTRY(z_layout) {
  __verif_observe("bas_numTransitions_off", BasicZoneProcessorTest_init::numTransitionsOffset());
}

// lemma L_Y: fields of the real LocalDate::forEpochSeconds(t) for t in [a0, a1)  (compared on the Python side)
ENTRY(z_year_lemma) {
  int32_t t = __verif_nondet_i32("t");
  __verif_assume(t >= (int32_t) a0 && t < (int32_t) a1);
  LocalDate ld = LocalDate::forEpochSeconds(t);
  __verif_observe("yearTiny", ld.yearTiny());
  __verif_observe("month", ld.month());
  __verif_observe("day", ld.day());
}

static void observeQuery(const TimeZone& tz, acetime_t t) {
  TimeOffset off = tz.getUtcOffset(t);
  __verif_observe("off", off.toMinutes());
  TimeOffset delta = tz.getDeltaOffset(t);
  __verif_observe("delta", delta.toMinutes());
  const char* abbrev = tz.getAbbrev(t);
  __verif_observe_str("abbrev", abbrev);
}

// extended zone a0, instant t in [a1, a2)
ENTRY(z_ext_query) {
  ExtendedZoneProcessor proc;
  TimeZone tz = TimeZone::forZoneInfo(zonedbx::kZoneRegistry[a0], &proc);
  int32_t t = __verif_nondet_i32("t");
  __verif_assume(t >= (int32_t) a1 && t < (int32_t) a2);
  observeQuery(tz, t);
}

// basic zone a0, instant t in [a1, a2)
ENTRY(z_bas_query) {
  BasicZoneProcessor proc;
  TimeZone tz = TimeZone::forZoneInfo(zonedb::kZoneRegistry[a0], &proc);
  int32_t t = __verif_nondet_i32("t");
  __verif_assume(t >= (int32_t) a1 && t < (int32_t) a2);
  observeQuery(tz, t);
}

ENTRY(z_ext_name) { __verif_observe_str("name", ExtendedZone(zonedbx::kZoneRegistry[a0]).name() ? (const char*) ExtendedZone(zonedbx::kZoneRegistry[a0]).name() : ""); }
ENTRY(z_bas_name) { __verif_observe_str("name", (const char*) BasicZone(zonedb::kZoneRegistry[a0]).name()); }
ENTRY(z_sizes) {
  __verif_observe("ext", zonedbx::kZoneRegistrySize);
  __verif_observe("bas", zonedb::kZoneRegistrySize);
}
