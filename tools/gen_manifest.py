#!/usr/bin/env python3
"""Generate /verif/MANIFEST.json from the table below (single source of truth)."""
import json
import os

VERIF = os.path.dirname(os.path.dirname(os.path.abspath(__file__)))
PY = 'python3-vt'

LLSYM_NOTE = ('Trusted base: clang 14 lowering of /repo/src to LLVM IR; llsym (our IR symbolic executor, '
              'validated by native replay of every counterexample); z3 4.8/5.1 and cvc5 1.0; the /verif/shim '
              'headers standing in for the Arduino core and AceCommon; x86-64 LP64 data model. Bounds and what '
              'lies outside them are listed in the evidence file.')

CHECKS = {
    'C06': dict(
        script='checks/c06.py', category='model_checking', design='DESIGN.md §4 C06',
        text=('Bounded symbolic model checking of the real IR of LocalDate/LocalTime/LocalDateTime/'
              'local_date_mutation: every input field is a solver variable over its whole domain (all dates '
              '1873..2127, all int32 epoch seconds, all 2^24 time byte triples); each assertion, calendar-spec '
              'equation and sanitizer trap is an SMT query (unsat = holds for every value in the domain). '
              'Composite round trips use function contracts whose own obligations are discharged against the IR '
              'in the same run.'),
        technique='symbolic execution of clang LLVM IR (llsym) + SMT (z3, cvc5 bv-as-int portfolio), function contracts',
    ),
}

CHECKS.update({
    'C01': dict(
        script='checks/c01.py', category='model_checking', design='DESIGN.md §4 C01',
        text=('Bounded symbolic model checking of the real IR of TimeZone/ExtendedZoneProcessor/brokers over the '
              'compiled zonedbx tables: the epoch second t is a solver variable ranging over all of 2000..2049; zone '
              '(387) and UTC year (50) are a driver case split that follows the cache key of the code; every leaf '
              '(path condition, offset, delta, abbreviation) is compared with the zic/zdump step function by SMT '
              'queries (unsat = no instant in the year differs), plus a coverage query per range. The year case split '
              'rests on a contract for LocalDate::forEpochSeconds discharged on the IR in the same run.'),
        technique='symbolic execution of clang LLVM IR (llsym) + SMT (z3); zic/zdump oracle; function contract for the year split',
    ),
    'C02': dict(
        script='checks/c02.py', category='model_checking', design='DESIGN.md §4 C02',
        text=('Same as C01 for BasicZoneProcessor over zonedb (268 zones x 50 years x Jan-1/rest split, t symbolic), '
              'plus a relational obligation per (zone, year, basic leaf, extended leaf) showing both processors agree at '
              'every instant for every shared zone, plus a call watch showing no transition is ever dropped from the '
              '5-entry cache.'),
        technique='symbolic execution of clang LLVM IR (llsym) + SMT (z3); zic/zdump oracle; relational leaf comparison',
    ),
    'C17': dict(
        script='checks/c17.py', category='model_checking', design='DESIGN.md §4 C17',
        text=('Kernel lemmas on the real IR of TimePeriod, TimeOffset and the mutation helpers with every argument a '
              'solver variable over its full stated domain; each assertion and each sanitizer trap is an SMT query.'),
        technique='symbolic execution of clang LLVM IR (llsym) + SMT (z3, cvc5 bv-as-int portfolio)',
    ),
})

CHECKS.update({
    'C13': dict(
        script='checks/c13.py', category='model_checking', design='DESIGN.md §4 C13',
        text=('Inductive step from an arbitrary invariant state plus base case plus k-step bounded model checking of '
              'the real IR of SystemClock::setNow/syncNow/getNow with T, the 64-bit millisecond counter, the 16-bit '
              'phase and every poll gap (0..64536 ms) as solver variables; the catch-up loop is unwound with an '
              'unwinding assertion (70 >= 66).'),
        technique='symbolic execution of clang LLVM IR (llsym) + SMT: inductive invariant step + k-step BMC',
    ),
    'C18': dict(
        script='checks/c18.py', category='model_checking', design='DESIGN.md §4 C18',
        text=('BasicZoneProcessor::calcStartDayOfMonth on the real IR with year (1873..2126), weekday and day-of-month '
              'symbolic, month x expression kind a driver case split, compared by SMT with the table-driven calendar '
              'specification; the admitted day ranges are obtained by running the current transformer filter code; '
              'admitted tuples are shown never to resolve into another year. The Python twin calc_day_of_month and the '
              'admission filter of _create_rules_with_on_day_expansion are executed by pysym (symbolic year/weekday/day, '
              'datetime.date replaced by a calendar-spec stand-in) and compared with the same specification over integers.'),
        technique='symbolic execution of clang LLVM IR (llsym) and of the Python functions (pysym) + SMT against one calendar specification',
    ),
})

CHECKS.update({
    'C10': dict(
        script='checks/c10.py', category='model_checking', design='DESIGN.md §4 C10',
        text=('The real ZoneRegistrar and ZoneManagerImpl templates on the IR, instantiated with a comparator over 4-byte '
              'keys whose result is symbolic (right sign, magnitude 1..127); registry keys, zone ids, probe key/id/index are '
              'solver variables, registry size n is a concrete case split (0..12,16,33 quick; 0..20,24,28,32,33 thorough), '
              'sorted and unsorted. Exactness, not-found, termination (unwinding assertions) and in-bounds registry reads '
              '(memory model) are decided per path by SMT; the shipped registries are additionally run with the real strcmp.'),
        technique='symbolic execution of clang LLVM IR (llsym) + SMT; bounds-checked memory model; unwinding assertions',
    ),
})

CHECKS.update({
    'C05': dict(
        script='checks/c05.py', category='model_checking', design='DESIGN.md §4 C05',
        text=('Kernel lemmas on the real IR of OffsetDateTime/ZonedDateTime/TimeZone with the instant (all int32), the '
              'offsets and two operands of compareTo as solver variables, under the documented representability '
              'precondition; LocalDateTime conversions enter as function contracts whose obligations are C06 lemmas. Database '
              'zones: for a seed-rotated sample of zones every instant of 2000..2049 is shown to get a non-error offset '
              'within the lemma range (engine run as in C01/C02), and the complete symbolic round trip / conversion is '
              'executed for a few (zone, year) instances of each kind (extended, basic, manager-created). compareTo inside one '
              'database zone: two symbolic instants t < t+d (d <= 2 h) around seed-drawn backward offset changes, exact calendar '
              'window contract so that counterexamples replay.'),
        technique='symbolic execution of clang LLVM IR (llsym) + SMT (z3/cvc5 portfolio); function contracts with uninterpreted calendar symbols',
    ),
})

CHECKS.update({
    'C08': dict(
        script='checks/c08.py', category='model_checking', design='DESIGN.md §4 C08',
        text=('Bounded model checking of call histories on the real IR: a processor shared by two TimeZone values and zone '
              'managers with 1 and 2 cache slots; a history is <=3 (quick) / <=4 (thorough) accessor calls (getUtcOffset, '
              'getDeltaOffset, getAbbrev, printTo) x zone x argument class, every argument symbolic inside its class (an '
              'in-range UTC year, far below / far above the zone data, the error sentinel); after it one more symbolic query is '
              'answered by the used objects and by a fresh time zone with its own processor in the same state, and the '
              'answers must coincide (SMT per path). Fixed patterns (repeat out-of-range, A-then-B) plus seed-drawn histories '
              'and zone pairs. Inductive step on the recycled storage: with every byte of the extended transition pool and match '
              'array / the basic transition slots an unconstrained solver variable, the cache-rebuilding query answers like a '
              'processor with zero-filled storage for every instant of the year (all zones; 12 drawn years quick, all 50 thorough).'),
        technique='symbolic execution of clang LLVM IR (llsym) + SMT; bounded history enumeration with symbolic arguments; one inductive step from arbitrary stale storage',
    ),
    'C16': dict(
        script='checks/c16.py', category='model_checking', design='DESIGN.md §4 C16',
        text=('TimeZone / TimeZoneData / ZoneManager on the real IR: manual offsets (all int16 pairs, two operands), probe '
              'instants and zone ids (including ids assumed absent from all registry entries) are solver variables; every '
              'entry of both shipped registries is a concrete case (save, restore, equality, same answers); an 11-call restore '
              'history (present and symbolic absent ids interleaved) on one manager per drawn zone pair.'),
        technique='symbolic execution of clang LLVM IR (llsym) + SMT; registry index case split',
    ),
})

CHECKS.update({
    'C09': dict(
        script='checks/c09.py', category='model_checking', design='DESIGN.md §4 C09',
        text=('All on the UBSan-trap IR (signed overflow, shift, division by zero, array bounds, null, unreachable) with the '
              'bounds-checked byte memory model and unwinding assertions: (1) every public date/time factory and accessor with '
              'every argument a solver variable over its whole type; (2) call histories as in C08 with below/above-range and '
              'sentinel arguments, repeated; (3) for all 387 extended zones and every UTC year 1999..2050 (t symbolic in the '
              'year) the transition high-water mark stays below the recorded buffer size and the pool size, and the basic '
              'cache never drops a transition. A reachable trap / out-of-bounds access is a counterexample replayed on an '
              'ASan+UBSan native build; documented range limits are listed as known findings.'),
        technique='symbolic execution of UBSan-trap LLVM IR (llsym) with bounds-checked memory + SMT',
    ),
})

CHECKS.update({
    'C14': dict(
        script='checks/c14.py', category='model_checking', design='DESIGN.md §4 C14',
        text=('SystemClockLoop::loop() on the real IR with harness reference/backup clocks whose readiness and responses are '
              'solver variables: one-step obligations from an arbitrary state of the four-state machine (status and backup '
              'configuration are a case split; periods, timeout, timers, 64-bit millis and the clock state symbolic) give the '
              'contract of every transition (apply valid response, never touch time otherwise, back-off rule, retry only after '
              'the period); a k-step BMC from the initial state with symbolic gaps cross-checks reachability and bounded liveness.'),
        technique='symbolic execution of clang LLVM IR (llsym) + SMT: one-step inductive checks + k-step BMC with nondeterministic environment stubs',
    ),
})

CHECKS.update({
    'C15': dict(
        script='checks/c15.py', category='model_checking', design='DESIGN.md §4 C15',
        text=('printTo of LocalDateTime / TimeOffset / OffsetDateTime / ZonedDateTime into an in-memory Print and the '
              'for*String parsers on the real IR: all field values and offsets (+-99:59) are solver variables, the printed bytes '
              'are terms of them, byte-level ISO-8601 predicates and parse(print(x)) == x are SMT obligations per path; every '
              'string length below the minimum with arbitrary bytes parses to an error value; zone names come from the table.'),
        technique='symbolic execution of clang LLVM IR (llsym) + SMT over printed bytes',
    ),
})

CHECKS.update({
    'C12': dict(
        script='checks/c12.py', category='model_checking', design='DESIGN.md §4 C12', engine='pysym+llsym',
        text=('Encoder: the real ArduinoGenerator item functions (_generate_era_item, _generate_policy_item and the helpers '
              'they call) executed by pysym on symbolic field values (STDOFF, SAVE, AT/UNTIL with suffix, years, day fields), '
              'their emitted C++ constant expressions mapped back to integer terms; decoder: the real broker accessors on the IR '
              'over symbolic table bytes (llsym). Per encoder path and field one SMT query substitutes the encoded bytes into the '
              'decoder terms and asks for an admissible value that decodes differently or does not fit the C++ field type; both '
              'scopes, all suffixes, single and indexed letters.'),
        technique='symbolic execution of the Python generator (pysym, z3 Int) composed with symbolic execution of the C++ brokers (llsym, bit-vectors) in one SMT query per field',
    ),
})

CHECKS.update({
    'C11': dict(
        script='checks/c11.py', category='model_checking', design='DESIGN.md §4 C11', engine='pysym+llsym',
        text=('hash_name executed by pysym on strings of 0..8 symbolic code points equals the djb2 recurrence (every length by '
              'the step, the loop body being the same term); the compiled zonedb/zonedbx tables, the published kZoneId* constants '
              'and the link references are read through the real accessors on the IR (static constructors included), and each '
              'table fact - id == djb2(name) == hash_name(name), uniqueness, ascending registry order with every name once, '
              'constants == table, basic == extended, recorded baseline - is one SMT query over a symbolic table index (a '
              'complete decision for a finite table).'),
        technique='symbolic execution of the Python hash (pysym) + table facts read through llsym and decided by SMT over a symbolic index',
    ),
})

CHECKS.update({
    'C03': dict(
        script='checks/c03.py', category='translation_validation', design='DESIGN.md §4 C03', engine='llsym',
        text=('Translation validation per program: the real tzcompiler pipeline (extractor, transformer, Arduino generator '
              'with buffer estimator, zone list, tzdb collector) is run on concrete TZ sources (the 2020d subset reconstructed '
              'from the shipped tables, the 2025b release de-shrunk from tzdata.zi, and a synthetic source exercising odd-minute '
              'offsets, half-hour SAVE, <= / >= / last rules, off-grid AT/UNTIL minutes, UNTIL suffixes, multi-era zones, a policy '
              'basic scope must reject, links; plus seed-drawn single-field variants), both scopes; the generated C++ tables are compiled with the '
              'library to IR and every emitted zone is decided against zic on the same text for every instant of 2000..2049 '
              '(symbolic t, C01/C02 machinery); every Zone/Link name must be emitted or reported removed, registry order and '
              'zones.txt are checked. The source text itself is not symbolic.'),
        technique='translation validation: run the compiler on listed programs, then symbolic execution of the generated tables (llsym) + SMT against zic',
    ),
    'C20': dict(
        script='checks/c20.py', category='other', design='DESIGN.md §4 C20', engine='pysym',
        text=('Symbolic part: the real PythonGenerator item renderers run by pysym with every numeric field symbolic; the '
              'rendered Python source is parsed and every rendered field compared with the in-memory field by SMT (lossless '
              'rendering for all values). Concrete part per program x scope: imported Python tables equal the in-memory tables, '
              'header counts, zones.txt, basic subset of extended, and the generated C++ tables of both scopes decoded through the '
              'library brokers agree for every shared zone without a truncation note. Determinism is NOT decided by a solver; it is smoke-tested by '
              'compiling each configuration in two interpreters with different hash seeds and diffing every output file.'),
        technique='token execution of the Python renderers (pysym + SMT); concrete consistency checks; determinism smoke test (not solver-decided)',
    ),
})

CHECKS.update({
    'C04': dict(
        script='checks/c04.py', category='model_checking', design='DESIGN.md §4 C04', engine='pysym+llsym',
        text=('The real Python ZoneSpecifier executed by pysym (epoch_seconds symbolic; UTC year and Jan-1 a case split '
              'through a datetime.utcfromtimestamp stand-in, init_for_year concrete through the real code, the transition '
              'lookup forking on its comparisons) against the llsym leaves of the C++ extended processor for the same zone data '
              '(Python tables generated by the real tzcompiler from the source recorded in the shipped zonedbx tables): on every '
              'intersection of a Python leaf and a C++ leaf offset, DST offset and abbreviation coincide (SMT over the symbolic '
              'instant, all of 2000..2049, all 387 zones); the option combinations (2 in quick, all 8 in thorough) give the same '
              'step function. Local date-time selection is not compared.'),
        technique='symbolic execution of the Python reference (pysym) and of the C++ processor (llsym) joined by SMT queries over the instant',
    ),
})

CHECKS.update({
    'C07': dict(
        script='checks/c07.py', category='model_checking', design='DESIGN.md §4 C07',
        text=('ZonedDateTime::forComponents -> TimeZone::getOffsetDateTime -> Extended/Basic processor on the real IR with the '
              'time of day (hour, minute, second) symbolic and the local date a driver case split: every date that contains a '
              'zic discontinuity of the zone in 2000..2049 (in either offset), its neighbours, seed-drawn ordinary dates and the four '
              'edge days of the supported years; the '
              'processor cache is primed with an earlier instant first. Per leaf and zic segment, SMT decides: a wall time that '
              'occurs once comes back unchanged with that offset, one that occurs twice comes back unchanged with one of the two '
              'offsets, one that does not occur is moved forward by the gap and gets the later offset; never an error value; the '
              'result equals its own rebuild from epoch seconds. Quick: a stratified zone sample; thorough: all zones.'),
        technique='symbolic execution of clang LLVM IR (llsym) + SMT against gap/overlap classification from zic; function contracts for the calendar kernels',
    ),
})

NOT_APPLICABLE = {
    'C19': ('the generators are sampling loops around pytz/dateutil tzinfo objects backed by binary tz files and '
            'C-implemented datetime; neither CrossHair nor our symbolic executor can make those symbolic, and a '
            'symbolic stand-in would check a model, not the code (DESIGN.md §5)'),
}

PENDING_REASON = 'not claimed yet: the solver-based check for this property is not built in this revision (see DESIGN.md §8 build order)'


def main():
    props = [json.loads(l)['id'] for l in open(os.path.join(VERIF, 'properties.jsonl'))]
    checks = []
    for pid in props:
        c = CHECKS.get(pid)
        if not c:
            continue
        entry = {
            'property_id': pid,
            'quick_cmd': '%s %s --tier quick' % (PY, c['script']),
            'thorough_cmd': '%s %s --tier thorough' % (PY, c['script']),
            'evidence_file': 'evidence/%s.json' % pid,
            'replay_cmd_template': '%s %s --replay {path}' % (PY, c['script']),
            'engine': c.get('engine', 'llsym'),
            'level_claimed': {'category': c['category'], 'text': c['text'], 'design_ref': c['design']},
            'level_note': c.get('note', LLSYM_NOTE),
            'technique': c['technique'],
        }
        checks.append(entry)
    na = []
    for pid in props:
        if pid in CHECKS:
            continue
        na.append({'property_id': pid, 'reason': NOT_APPLICABLE.get(pid, PENDING_REASON)})
    man = {
        'version': 1,
        'setup_cmd': 'mkdir -p .work evidence replays && %s tools/selfcheck.py' % PY,
        'hooks': {
            'guard': 'ACETIME_VERIF',
            'enable': ('no source hooks: harnesses reach private state through the friend-class declarations the '
                       'library already contains; harness builds pass -DACETIME_VERIF=1 (unused by /repo)'),
            'baseline_off_cmd': ('cd /repo && /venv/bin/python -m pytest -ra -q -p no:cacheprovider --timeout=900 '
                                 '--continue-on-collection-errors'),
            'source_commits': [],
            'add_only': True,
        },
        'engines': [
            {'name': 'llsym', 'path': 'llsym/', 'serves_properties': sorted(p for p, c in CHECKS.items()
                                                                           if c.get('engine', 'llsym') == 'llsym'),
             'kind_free_text': ('symbolic executor for LLVM IR (bitcode read through the LLVM-C API), byte-addressed '
                                'bounds-checked memory, forking on symbolic branches, UBSan-trap IR, obligations '
                                'discharged by z3 / cvc5 --solve-bv-as-int, native replay of counterexamples')},
        ],
        'checks': checks,
        'not_applicable': na,
        'notes': ('Every check rebuilds LLVM IR and replay binaries from /repo/src on each run (scratch under '
                  '/verif/.work, removed on exit). Exit 0 = held within the stated bounds; 1 = VIOLATION (replayed '
                  'natively); 2 = inconclusive (solver timeout / engine limitation) - never reported as a pass.'),
    }
    with open(os.path.join(VERIF, 'MANIFEST.json'), 'w') as f:
        json.dump(man, f, indent=1)
    print('checks: %d, not_applicable: %d' % (len(checks), len(na)))


if __name__ == '__main__':
    main()
