// C13 — SystemClock keeps exact time from millis(), across counter wrap-around.
#include <AceTime.h>
#include "verif.h"
using namespace ace_time;
using namespace ace_time::clock;

static unsigned long gMillis;
extern "C" unsigned long millis() { return gMillis; }

class HClock : public SystemClock {
  public:
    HClock() : SystemClock(nullptr, nullptr) {}
    unsigned long clockMillis() const override { return gMillis; }
};

// friend of SystemClock: direct access to the private state
class SystemClockLoopTest {
  public:
    static void setState(SystemClock& c, acetime_t e, uint16_t p, bool init) {
      c.mEpochSeconds = e; c.mPrevMillis = p; c.mIsInit = init;
    }
    static void setLastSync(SystemClock& c, acetime_t l) { c.mLastSyncTime = l; }
    static acetime_t epoch(const SystemClock& c) { return c.mEpochSeconds; }
    static uint16_t prev(const SystemClock& c) { return c.mPrevMillis; }
    static acetime_t lastSync(const SystemClock& c) { return c.mLastSyncTime; }
};

// before the first set: sentinel; setting the sentinel is ignored
ENTRY(c13_before_set) {
  HClock c;
  gMillis = __verif_nondet_u64("m");
  __verif_assert(!c.isInit(), "fresh clock not initialised");
  __verif_assert(c.getNow() == Clock::kInvalidSeconds, "getNow before set is the sentinel");
  c.setNow(Clock::kInvalidSeconds);
  __verif_assert(!c.isInit(), "setNow(sentinel) ignored");
  __verif_assert(c.getNow() == Clock::kInvalidSeconds, "still the sentinel");
  gMillis = gMillis + __verif_nondet_u16("g");
  __verif_assert(c.getNow() == Clock::kInvalidSeconds, "still the sentinel later");
}

// fresh clock: set T at m0, read at m0+g, g in [a0, a1]
ENTRY(c13_set_then_read) {
  HClock c;
  int32_t T = __verif_nondet_i32("T");
  uint64_t m0 = __verif_nondet_u64("m0");
  uint32_t g = __verif_nondet_u32("g");
  __verif_assume(T != Clock::kInvalidSeconds && T <= 2147483647 - 70);
  __verif_assume(g >= (uint32_t) a0 && g <= (uint32_t) a1);
  gMillis = m0;
  c.setNow(T);
  __verif_assert(c.isInit(), "initialised after set");
  __verif_assert(c.getNow() == T, "reads T at the instant it is set");
  gMillis = m0 + g;
  acetime_t now = c.getNow();
  __verif_observe("now", now);
  __verif_assert(now == T + (int32_t) (g / 1000), "T+floor((m-m0)/1000) after one gap");
  __verif_assert(SystemClockLoopTest::lastSync(c) == T, "lastSyncTime");
}

// inductive step from an arbitrary state satisfying the invariant
//   Inv(e, p, m): isInit, r := (uint16)(m - p) < 1000        (the clock stands at e seconds + r ms)
// poll at m' = m + g, g in [a0, a1] (<= 64536):  result e + floor((r+g)/1000), Inv holds again with r' = (r+g) mod 1000
ENTRY(c13_step) {
  HClock c;
  int32_t e = __verif_nondet_i32("e");
  uint16_t p = __verif_nondet_u16("p");
  uint64_t m = __verif_nondet_u64("m");
  uint32_t g = __verif_nondet_u32("g");
  __verif_assume(e != Clock::kInvalidSeconds && e <= 2147483647 - 70);
  uint16_t r = (uint16_t) ((uint16_t) m - p);
  __verif_assume(r < 1000);
  __verif_assume(g >= (uint32_t) a0 && g <= (uint32_t) a1 && g <= 64536);
  SystemClockLoopTest::setState(c, e, p, true);
  gMillis = m + g;
  acetime_t now = c.getNow();
  uint32_t total = (uint32_t) r + g;
  __verif_assert(now == e + (int32_t) (total / 1000), "step: e+floor((r+g)/1000)");
  __verif_assert(now >= e, "monotonic");
  __verif_assert(SystemClockLoopTest::epoch(c) == now, "state: seconds");
  uint16_t r2 = (uint16_t) ((uint16_t) gMillis - SystemClockLoopTest::prev(c));
  __verif_assert(r2 == total % 1000, "state: carried remainder (invariant re-established)");
  __verif_assert(c.isInit(), "still initialised");
}

// k-step BMC from the constructed state: set, then a1 polls with gaps < a0 ms each
ENTRY(c13_bmc) {
  HClock c;
  int32_t T = __verif_nondet_i32("T");
  uint64_t m0 = __verif_nondet_u64("m0");
  __verif_assume(T != Clock::kInvalidSeconds && T <= 2147483647 - 1000);
  gMillis = m0;
  c.setNow(T);
  uint64_t m = m0;
  acetime_t last = T;
  for (long i = 0; i < a1; i++) {
    uint32_t g = __verif_nondet_u32("g");
    __verif_assume(g < (uint32_t) a0);
    m += g;
    gMillis = m;
    acetime_t now = c.getNow();
    __verif_assert(now == T + (int32_t) ((m - m0) / 1000), "bmc: T+floor((m-m0)/1000)");
    __verif_assert(now >= last, "bmc: never decreases");
    last = now;
  }
}

// re-setting an initialised clock (arbitrary invariant state, not polled since m_prev): set T2 at m1, read at m1+g
ENTRY(c13_reset_then_read) {
  HClock c;
  int32_t e = __verif_nondet_i32("e");
  uint16_t p = __verif_nondet_u16("p");
  uint64_t m1 = __verif_nondet_u64("m1");
  int32_t T2 = __verif_nondet_i32("T2");
  uint32_t g = __verif_nondet_u32("g");
  __verif_assume(e != Clock::kInvalidSeconds && T2 != Clock::kInvalidSeconds && T2 <= 2147483647 - 70);
  __verif_assume(g >= (uint32_t) a0 && g <= (uint32_t) a1);
  SystemClockLoopTest::setState(c, e, p, true);
  // the value of the previous successful set is part of the state too (any earlier set may have left it; in particular
  // it may equal T2 while the clock has advanced past it)
  SystemClockLoopTest::setLastSync(c, __verif_nondet_i32("lastSync"));
  gMillis = m1;
  c.setNow(T2);
  __verif_assert(SystemClockLoopTest::lastSync(c) == T2, "lastSyncTime is the value just set");
  gMillis = m1 + g;
  acetime_t now = c.getNow();
  if (e == T2) {
    // syncNow() returns early when the value equals the cached (possibly stale) second
    __verif_assert(now == T2 + (int32_t) (g / 1000), "after re-set to the cached second: T2+floor((m-m1)/1000)");
  } else {
    __verif_assert(now == T2 + (int32_t) (g / 1000), "after re-set to a different second: T2+floor((m-m1)/1000)");
  }
}

// setNow(sentinel) on an initialised clock changes nothing
ENTRY(c13_set_sentinel_ignored) {
  HClock c;
  int32_t e = __verif_nondet_i32("e");
  uint16_t p = __verif_nondet_u16("p");
  __verif_assume(e != Clock::kInvalidSeconds);
  SystemClockLoopTest::setState(c, e, p, true);
  gMillis = __verif_nondet_u64("m");
  c.setNow(Clock::kInvalidSeconds);
  __verif_assert(SystemClockLoopTest::epoch(c) == e && SystemClockLoopTest::prev(c) == p && c.isInit(), "unchanged");
}
