"""pysym — a small dynamic symbolic executor for the repository's own Python functions.

SymInt wraps a z3 Int term and implements Python's integer protocol (floor division and modulo by positive
concrete divisors, comparisons, arithmetic).  bool() of a symbolic comparison consults the solver and forks by
re-execution along a decision prefix (depth-first; complete when the tree is exhausted).  __format__/__str__ return
a unique token so that generated text can be mapped back to the term it came from ("token execution")."""
import re
import z3


class PathLimit(Exception):
    pass


class _Ctl(object):
    def __init__(self):
        self.prefix = []
        self.trace = []
        self.pc = []
        self.solver = None
        self.tokens = {}
        self.depth_limit = 200


_CTL = [None]


def ctl():
    return _CTL[0]


def _lift(v):
    if isinstance(v, SymInt):
        return v.t
    if isinstance(v, bool):
        return z3.IntVal(1 if v else 0)
    if isinstance(v, int):
        return z3.IntVal(v)
    raise TypeError('cannot lift %r' % (v,))


class SymBool(object):
    __slots__ = ('t',)

    def __init__(self, t):
        self.t = t

    def __bool__(self):
        c = ctl()
        t = z3.simplify(self.t)
        if z3.is_true(t):
            return True
        if z3.is_false(t):
            return False
        k = len(c.trace)
        if k < len(c.prefix):
            d, alt = c.prefix[k]
        else:
            if k >= c.depth_limit:
                raise PathLimit('decision depth limit')
            # first visit: prefer True if feasible
            c.solver.push()
            c.solver.add(t)
            rt = c.solver.check()
            c.solver.pop()
            c.solver.push()
            c.solver.add(z3.Not(t))
            rf = c.solver.check()
            c.solver.pop()
            if rt == z3.unknown or rf == z3.unknown:
                raise PathLimit('solver unknown in pysym')
            if rt == z3.sat and rf == z3.sat:
                d = True
                c.trace.append((True, True))      # (decision, has_alternative)
                c.pc.append(t)
                c.solver.add(t)
                return True
            d = (rt == z3.sat)
            c.trace.append((d, False))
            return d
        c.trace.append((d, alt))
        cond = t if d else z3.Not(t)
        c.pc.append(cond)
        c.solver.add(cond)
        return d

    def __and__(self, o):
        return SymBool(z3.And(self.t, _liftb(o)))

    def __or__(self, o):
        return SymBool(z3.Or(self.t, _liftb(o)))

    def __invert__(self):
        return SymBool(z3.Not(self.t))

    # a bool used as an integer (e.g. `days += is_leap`)
    def _as_int(self):
        return SymInt(z3.If(self.t, z3.IntVal(1), z3.IntVal(0)))

    def __add__(self, o):
        return self._as_int() + o
    __radd__ = __add__

    def __eq__(self, o):
        if isinstance(o, SymBool):
            return SymBool(self.t == o.t)
        if isinstance(o, bool):
            return SymBool(self.t == z3.BoolVal(o))
        return self._as_int() == o

    __hash__ = None


def _liftb(v):
    if isinstance(v, SymBool):
        return v.t
    return z3.BoolVal(bool(v))


class SymInt(object):
    __slots__ = ('t',)

    def __init__(self, t):
        self.t = t if not isinstance(t, str) else z3.Int(t)

    # arithmetic
    def __add__(self, o):
        return SymInt(self.t + _lift(o))
    __radd__ = __add__

    def __sub__(self, o):
        return SymInt(self.t - _lift(o))

    def __rsub__(self, o):
        return SymInt(_lift(o) - self.t)

    def __mul__(self, o):
        return SymInt(self.t * _lift(o))
    __rmul__ = __mul__

    def __neg__(self):
        return SymInt(-self.t)

    def __pos__(self):
        return self

    def __abs__(self):
        return SymInt(z3.If(self.t >= 0, self.t, -self.t))

    def __floordiv__(self, o):
        if isinstance(o, SymInt) or o <= 0:
            raise TypeError('pysym: floor division only by positive concrete divisors')
        return SymInt(self.t / z3.IntVal(o))         # z3 Int div is floor for positive divisors

    def __mod__(self, o):
        if isinstance(o, SymInt) or o <= 0:
            raise TypeError('pysym: modulo only by positive concrete divisors')
        return SymInt(self.t % z3.IntVal(o))

    def __divmod__(self, o):
        return (self // o, self % o)

    # comparisons
    def __eq__(self, o):
        if not isinstance(o, (int, SymInt)):
            return False
        return SymBool(self.t == _lift(o))

    def __ne__(self, o):
        if not isinstance(o, (int, SymInt)):
            return True
        return SymBool(self.t != _lift(o))

    def __lt__(self, o):
        return SymBool(self.t < _lift(o))

    def __le__(self, o):
        return SymBool(self.t <= _lift(o))

    def __gt__(self, o):
        return SymBool(self.t > _lift(o))

    def __ge__(self, o):
        return SymBool(self.t >= _lift(o))

    def __bool__(self):
        return bool(SymBool(self.t != 0))

    __hash__ = None

    # token execution
    def _token(self):
        c = ctl()
        if c is None:
            return 'Sym(%s)' % z3.simplify(self.t)
        k = 'SYM%dQ' % len(c.tokens)
        c.tokens[k] = self.t
        return k

    def __str__(self):
        return self._token()

    __repr__ = __str__

    def __format__(self, spec):
        return self._token()

    def __index__(self):
        raise TypeError('pysym: a symbolic integer was used as an index/range bound (concretisation point)')


class Path(object):
    def __init__(self, pc, result, tokens, exception=None):
        self.pc = pc
        self.result = result
        self.tokens = tokens
        self.exception = exception


def explore(fn, assumptions=(), max_paths=2000, depth_limit=200):
    """Run fn() along every feasible decision sequence.  Returns list of Path."""
    paths = []
    prefix = []
    while True:
        c = _Ctl()
        c.prefix = prefix
        c.depth_limit = depth_limit
        c.solver = z3.Solver()
        c.solver.set('timeout', 20000)
        for a in assumptions:
            c.solver.add(a)
        _CTL[0] = c
        exc = None
        res = None
        try:
            res = fn()
        except PathLimit:
            raise
        except Exception as e:  # noqa  (only Exception: never swallow BaseException)
            exc = e
        paths.append(Path(list(assumptions) + c.pc, res, dict(c.tokens), exc))
        if len(paths) > max_paths:
            raise PathLimit('more than %d paths' % max_paths)
        # next prefix: flip the last decision that has an untried alternative
        tr = c.trace
        k = len(tr) - 1
        while k >= 0 and not tr[k][1]:
            k -= 1
        if k < 0:
            break
        prefix = list(tr[:k]) + [(False, False)]
    _CTL[0] = None
    return paths


_TOK = re.compile(r'SYM\d+Q')


def eval_cpp_expr(text, tokens, consts):
    """Evaluate a C++ constant expression emitted by the generators to a z3 Int term.
    Grammar: integers, tokens, named constants, ( ), unary -, + - * << (precedence as in C++)."""
    toks = re.findall(r'SYM\d+Q|[A-Za-z_][A-Za-z_0-9:]*|\d+|<<|[()+\-*]|\'.\'', text)
    pos = [0]

    def peek():
        return toks[pos[0]] if pos[0] < len(toks) else None

    def take():
        t = toks[pos[0]]
        pos[0] += 1
        return t

    def atom():
        t = take()
        if t == '(':
            v = shift()
            if take() != ')':
                raise ValueError('expected )')
            return v
        if t == '-':
            return -atom()
        if t == '+':
            return atom()
        if _TOK.fullmatch(t):
            return tokens[t]
        if t.isdigit():
            return z3.IntVal(int(t))
        if len(t) == 3 and t[0] == "'" and t[2] == "'":
            return z3.IntVal(ord(t[1]))
        if t in consts:
            return z3.IntVal(consts[t])
        raise ValueError('unknown token %r in %r' % (t, text))

    def mul():
        v = atom()
        while peek() == '*':
            take()
            v = v * atom()
        return v

    def add():
        v = mul()
        while peek() in ('+', '-'):
            if take() == '+':
                v = v + mul()
            else:
                v = v - mul()
        return v

    def shift():
        v = add()
        while peek() == '<<':
            take()
            k = add()
            k = z3.simplify(k)
            if not z3.is_int_value(k):
                raise ValueError('symbolic shift amount')
            v = v * z3.IntVal(1 << k.as_long())
        return v

    v = shift()
    if pos[0] != len(toks):
        raise ValueError('trailing tokens in %r' % text)
    return v
